#!/bin/sh
# Builds the framework from files on disk only (offline): full .vo build of the Coq development
# (includes extraction), the OCaml model driver, and the Rust harness against /repo (debug + release).
set -e
cd "$(dirname "$0")"
export CARGO_NET_OFFLINE=true
mkdir -p .cache evidence
( cd coq && coq_makefile -f _CoqProject -o Makefile && timeout 3000 make -j16 )
python3 - <<'PY'
import sys
sys.path.insert(0, "tools")
import cflib
cflib.build_driver()
for prof in ("debug", "release"):
    print("harness:", cflib.build_harness(prof))
PY
echo setup done
