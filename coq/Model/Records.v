(** Header and alignment-data records: src/alignment/section/{header.rs, header/sequence.rs, data.rs}
    and src/line.rs. *)
Require Import CF.Model.Base CF.Model.Omics CF.Model.Text.

(** header/sequence.rs [Sequence] *)
Record seqrec := { sname : contig; ssize : N; sstrand : strand; sstart : N; send : N }.
Inductive seqerr := SESize | SEStrand | SEStart | SEEnd | SEStartGtEnd | SEInterval (e : ierr) | SEEndGtSize.

Definition parse_strand (s : bytes) : option strand :=
  match s with
  | [b] => if b =? PLUS then Some Pos else if b =? MINUS then Some Neg else None
  | _ => None
  end.
Definition print_strand (s : strand) : bytes := match s with Pos => [PLUS] | Neg => [MINUS] end.

(** [Sequence::try_from_str_parts] *)
Definition seq_try_from_parts (name size strand_ start end_ : bytes) : result seqerr seqrec :=
  match parse_u64 size with
  | None => Err SESize
  | Some sz =>
    match parse_strand strand_ with
    | None => Err SEStrand
    | Some st =>
      match parse_u64 start with
      | None => Err SEStart
      | Some a =>
        match parse_u64 end_ with
        | None => Err SEEnd
        | Some b => if b <? a then Err SEStartGtEnd
                    else Ok {| sname := name; ssize := sz; sstrand := st; sstart := a; send := b |}
        end
      end
    end
  end.

(** [Sequence::interval] (after the repair of finding F4: a checked size - end) *)
Definition seq_interval (s : seqrec) : result seqerr ival :=
  match sstrand s with
  | Pos =>
    match ival_try_new {| cctg := sname s; cstr := Pos; cpos := sstart s |}
                       {| cctg := sname s; cstr := Pos; cpos := send s |} with
    | Ok i => Ok i | Err e => Err (SEInterval e)
    end
  | Neg =>
    if ssize s <? send s then Err SEEndGtSize else
    match ival_try_new {| cctg := sname s; cstr := Neg; cpos := ssize s - sstart s |}
                       {| cctg := sname s; cstr := Neg; cpos := ssize s - send s |} with
    | Ok i => Ok i | Err e => Err (SEInterval e)
    end
  end.

(** [Sequence::interval] before the repair: unchecked subtraction; [dbg] = overflow checks on.
    Kept for the [_refuted] witness only. *)
Definition sub_unchecked (dbg : bool) (a b : N) : outcome N :=
  if b <=? a then Val (a - b) else if dbg then Panic 20 else Val (a + 18446744073709551616 - b).
Definition seq_interval_old (dbg : bool) (s : seqrec) : outcome (result seqerr ival) :=
  match sstrand s with
  | Pos =>
    match ival_try_new {| cctg := sname s; cstr := Pos; cpos := sstart s |}
                       {| cctg := sname s; cstr := Pos; cpos := send s |} with
    | Ok i => Val (Ok i) | Err e => Val (Err (SEInterval e))
    end
  | Neg =>
    obind (sub_unchecked dbg (ssize s) (sstart s)) (fun a =>
    obind (sub_unchecked dbg (ssize s) (send s)) (fun b =>
    match ival_try_new {| cctg := sname s; cstr := Neg; cpos := a |}
                       {| cctg := sname s; cstr := Neg; cpos := b |} with
    | Ok i => Val (Ok i) | Err e => Val (Err (SEInterval e))
    end))
  end.

Definition print_seq (s : seqrec) : bytes :=
  sname s ++ SP :: print_u64 (ssize s) ++ SP :: print_strand (sstrand s) ++ SP :: print_u64 (sstart s)
  ++ SP :: print_u64 (send s).

(** header.rs [Record] *)
Record header := { hscore : N; href : seqrec; hqry : seqrec; hid : N }.
Inductive hdrerr := HFields (n : N) | HPrefix | HScore | HRef (e : seqerr) | HQry (e : seqerr) | HId | HEndExceeds.

(** [header::Record::from_str] *)
Definition parse_header (s : bytes) : result hdrerr header :=
  match split SP s with
  | [p0; p1; p2; p3; p4; p5; p6; p7; p8; p9; p10; p11; p12] =>
    if negb (bytes_eqb p0 CHAIN) then Err HPrefix else
    match parse_u64 p1 with
    | None => Err HScore
    | Some score =>
      match seq_try_from_parts p2 p3 p4 p5 p6 with
      | Err e => Err (HRef e)
      | Ok r =>
        match seq_try_from_parts p7 p8 p9 p10 p11 with
        | Err e => Err (HQry e)
        | Ok q =>
          match parse_u64 p12 with
          | None => Err HId
          | Some id =>
            if ssize r <? send r then Err HEndExceeds
            else if ssize q <? send q then Err HEndExceeds
            else Ok {| hscore := score; href := r; hqry := q; hid := id |}
          end
        end
      end
    end
  | parts => Err (HFields (N.of_nat (length parts)))
  end.

Definition print_header (h : header) : bytes :=
  CHAIN ++ SP :: print_u64 (hscore h) ++ SP :: print_seq (href h) ++ SP :: print_seq (hqry h)
  ++ SP :: print_u64 (hid h).

(** data.rs [Record]; [dterm] is its [Kind] (true = Terminating) *)
Record drec := { dsize : N; ddt : option N; ddq : option N; dterm : bool }.
Inductive drecerr := DNonTermDt | DNonTermDq | DTermDt | DTermDq | DFields (n : N) | DSize | DDt | DDq.

(** [data::Record::try_new] *)
Definition drec_try_new (size : N) (dt dq : option N) (term : bool) : result drecerr drec :=
  if term then
    match dt, dq with
    | Some _, _ => Err DTermDt
    | None, Some _ => Err DTermDq
    | None, None => Ok {| dsize := size; ddt := dt; ddq := dq; dterm := term |}
    end
  else
    match dt, dq with
    | None, _ => Err DNonTermDt
    | Some _, None => Err DNonTermDq
    | Some _, Some _ => Ok {| dsize := size; ddt := dt; ddq := dq; dterm := term |}
    end.

(** [data::Record::from_str] *)
Definition parse_drec (s : bytes) : result drecerr drec :=
  match split TAB s with
  | [p0] =>
    match parse_u64 p0 with
    | None => Err DSize
    | Some size => drec_try_new size None None true
    end
  | [p0; p1; p2] =>
    match parse_u64 p0 with
    | None => Err DSize
    | Some size =>
      match parse_u64 p1 with
      | None => Err DDt
      | Some dt =>
        match parse_u64 p2 with
        | None => Err DDq
        | Some dq => drec_try_new size (Some dt) (Some dq) false
        end
      end
    end
  | parts => Err (DFields (N.of_nat (length parts)))
  end.

(** [Display for data::Record]; the two [expect]s are [Panic 30]/[Panic 31] *)
Definition print_drec (d : drec) : outcome bytes :=
  if dterm d then Val (print_u64 (dsize d))
  else match ddt d, ddq d with
       | Some dt, Some dq => Val (print_u64 (dsize d) ++ TAB :: print_u64 dt ++ TAB :: print_u64 dq)
       | None, _ => Panic 30
       | Some _, None => Panic 31
       end.

(** line.rs *)
Inductive line := LEmpty | LHeader (h : header) | LData (d : drec).
Inductive lineerr := LEHeader (e : hdrerr) | LEData (e : drecerr).
Definition parse_line (s : bytes) : result lineerr line :=
  match s with
  | [] => Ok LEmpty
  | _ => if starts_with CHAIN s
         then match parse_header s with Ok h => Ok (LHeader h) | Err e => Err (LEHeader e) end
         else match parse_drec s with Ok d => Ok (LData d) | Err e => Err (LEData e) end
  end.
Definition print_line (l : line) : outcome bytes :=
  match l with
  | LEmpty => Val []
  | LHeader h => Val (print_header h)
  | LData d => print_drec d
  end.
