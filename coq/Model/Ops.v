(** C17: histories of reader operations over one cursor.  Every reading method of [Reader] consumes
    the same stream of raw line reads; an operation is characterised by what it returns and by the reads
    it consumed.  [OpSec] continues the live [Sections] iterator if the previous operation was [OpSec] too
    (the iterator borrows the reader, so any other operation ends it); [OpDrop] ends it explicitly. *)
Require Import CF.Model.Base CF.Model.Text CF.Model.Records CF.Model.Reader CF.Model.Sections.

Inductive op := OpRaw | OpParsed | OpLines | OpSec | OpDrop.
Inductive obs :=
| ObsRaw (r : rawres)            (* read_line_raw *)
| ObsParsed (r : rawres)         (* read_line / lines().next(): the raw read, parsed by the caller's view *)
| ObsSec (x : option sitem)      (* sections().next() *)
| ObsDrop
| ObsPanic.
Record ostate := { oreads : list rawres; oiter : option siter }.

(** one operation: observation, reads consumed, new state *)
Definition op_step (o : op) (s : ostate) : obs * list rawres * ostate :=
  match o with
  | OpDrop => (ObsDrop, [], {| oreads := oreads s; oiter := None |})
  | OpRaw | OpParsed | OpLines =>
    match oreads s with
    | [] => ((match o with OpRaw => ObsRaw REof | _ => ObsParsed REof end), [], {| oreads := []; oiter := None |})
    | r :: rest => ((match o with OpRaw => ObsRaw r | _ => ObsParsed r end), [r], {| oreads := rest; oiter := None |})
    end
  | OpSec =>
    let it0 := match oiter s with Some i => i | None => sections_new end in
    match sections_next it0 (oreads s) with
    | Panic _ => (ObsPanic, [], s)
    | Val (x, it', rest) =>
      (ObsSec x, firstn (length (oreads s) - length rest) (oreads s), {| oreads := rest; oiter := Some it' |})
    end
  end.

Fixpoint run_ops (ops : list op) (s : ostate) : list (obs * list rawres) * ostate :=
  match ops with
  | [] => ([], s)
  | o :: os => let '(ob, used, s') := op_step o s in
               let '(tr, s'') := run_ops os s' in ((ob, used) :: tr, s'')
  end.
