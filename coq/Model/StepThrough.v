(** src/liftover/stepthrough.rs *)
Require Import CF.Model.Base CF.Model.Omics CF.Model.Pair CF.Model.Records CF.Model.Sections.

Inductive sterr := OOB (which : N) | EInterval | EPair | Misaligned | ESeq (e : seqerr).
Definition stitem := result sterr (pair * drec).

Record st := { rp : coord; rend : coord; qp : coord; qend : coord; recs : list drec;
               finished : bool; failed : bool }.

(** [StepThroughWithData::new] *)
Definition st_new (sec : section) : result sterr st :=
  match seq_interval (href (shdr sec)) with
  | Err e => Err (ESeq e)
  | Ok R =>
    match seq_interval (hqry (shdr sec)) with
    | Err e => Err (ESeq e)
    | Ok Q => Ok {| rp := istart R; rend := iend R; qp := istart Q; qend := iend Q; recs := sdata sec;
                    finished := false; failed := false |}
    end
  end.

Definition set_ptrs (s : st) (r q : coord) (rest : list drec) : st :=
  {| rp := r; rend := rend s; qp := q; qend := qend s; recs := rest; finished := finished s; failed := failed s |}.

(** [StepThroughWithData::step] exactly as written: early returns keep half-updated pointers.
    OOB 1..4 = reference by size, query by size, query by dq, reference by dt. *)
Definition st_step (s : st) : option stitem * st :=
  match recs s with
  | [] =>
    if negb (coord_eqb (rp s) (rend s)) then (Some (Err Misaligned), s)
    else if negb (coord_eqb (qp s) (qend s)) then (Some (Err Misaligned), s)
    else (None, {| rp := rp s; rend := rend s; qp := qp s; qend := qend s; recs := [];
                   finished := true; failed := failed s |})
  | c :: rest =>
    let rstart := rp s in
    match move_forward (rp s) (dsize c) with
    | None => (Some (Err (OOB 1)), set_ptrs s (rp s) (qp s) rest)
    | Some rp1 =>
      match ival_try_new rstart rp1 with
      | Err _ => (Some (Err EInterval), set_ptrs s rp1 (qp s) rest)
      | Ok reference =>
        let qstart := qp s in
        match move_forward (qp s) (dsize c) with
        | None => (Some (Err (OOB 2)), set_ptrs s rp1 (qp s) rest)
        | Some qp1 =>
          match ival_try_new qstart qp1 with
          | Err _ => (Some (Err EInterval), set_ptrs s rp1 qp1 rest)
          | Ok query =>
            match (match ddq c with Some dq => move_forward qp1 dq | None => Some qp1 end) with
            | None => (Some (Err (OOB 3)), set_ptrs s rp1 qp1 rest)
            | Some qp2 =>
              match (match ddt c with Some dt => move_forward rp1 dt | None => Some rp1 end) with
              | None => (Some (Err (OOB 4)), set_ptrs s rp1 qp2 rest)
              | Some rp2 =>
                match pair_try_new reference query with
                | Err _ => (Some (Err EPair), set_ptrs s rp2 qp2 rest)
                | Ok p => (Some (Ok (p, c)), set_ptrs s rp2 qp2 rest)
                end
              end
            end
          end
        end
      end
    end
  end.

(** [Iterator::next] (after the repair of finding F5: nothing after the first error) *)
Definition st_next (s : st) : option stitem * st :=
  if failed s then (None, s) else
  match st_step s with
  | (Some (Err e), s') => (Some (Err e), {| rp := rp s'; rend := rend s'; qp := qp s'; qend := qend s';
                                            recs := recs s'; finished := finished s'; failed := true |})
  | r => r
  end.

Fixpoint st_drain (fuel : nat) (s : st) : list stitem * bool :=
  match fuel with
  | O => ([], false)
  | S f => match st_next s with
           | (None, _) => ([], true)
           | (Some it, s') => let '(l, e) := st_drain f s' in (it :: l, e)
           end
  end.
(** the unrepaired iterator, for [_refuted] only *)
Fixpoint st_drain_old (fuel : nat) (s : st) : list stitem * bool :=
  match fuel with
  | O => ([], false)
  | S f => match st_step s with
           | (None, _) => ([], true)
           | (Some it, s') => let '(l, e) := st_drain_old f s' in (it :: l, e)
           end
  end.
