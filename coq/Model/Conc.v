(** C18: read-only thread programs over one shared machine, under arbitrary schedules.
    A schedule is the sequence of thread ids that take the next atomic step.  A step reads the shared
    machine and updates only the stepping thread's local state - which is what [&self] methods on a type
    without interior mutability amount to (the premise the Rust compiler checks: Machine: Sync). *)
Require Import CF.Model.Base CF.Model.Omics CF.Model.Pair CF.Model.Machine.

Section Conc.
Variable M : Type.                 (* the shared, never-written state *)
Variable S : Type.                 (* thread-local state *)
Variable step : M -> S -> S.

Fixpoint upd (t : nat) (f : S -> S) (ts : list S) : list S :=
  match ts, t with
  | [], _ => []
  | x :: r, O => f x :: r
  | x :: r, Datatypes.S t' => x :: upd t' f r
  end.
Fixpoint run (m : M) (sched : list nat) (ts : list S) : list S :=
  match sched with [] => ts | t :: r => run m r (upd t (step m) ts) end.
Fixpoint iter (n : nat) (f : S -> S) (x : S) : S := match n with O => x | Datatypes.S k => iter k f (f x) end.
End Conc.
Arguments upd {S}. Arguments run {M S}. Arguments iter {S}.

(** a liftover client: queries still to issue, answers so far *)
Record client := { todo : list ival; answers : list (outcome (option (list pair))) }.
Definition client_step (m : machine) (c : client) : client :=
  match todo c with
  | [] => c
  | q :: r => {| todo := r; answers := answers c ++ [liftover m q] |}
  end.
