(** rust-lapper 1.3.0: [Lapper::new] (stable sort by (start, stop), max_len), [lower_bound]
    (the branch-free binary search as written) and [find] (window start - max_len, linear scan,
    early break). *)
Require Import CF.Model.Base.
From Coq Require Import PeanoNat.

Section Lap.
Variable V : Type.
Record liv := { lstart : N; lstop : N; lval : V }.

(** [Ord for Interval]: by start, then stop *)
Definition liv_le (a b : liv) : bool :=
  (lstart a <? lstart b) || ((lstart a =? lstart b) && (lstop a <=? lstop b)).
(** a stable sort (insertion sort; any stable sort yields the same list) *)
Fixpoint insert (x : liv) (l : list liv) : list liv :=
  match l with [] => [x] | y :: r => if liv_le x y then x :: l else y :: insert x r end.
Definition sort (l : list liv) : list liv := fold_right insert [] l.
Definition max_len (l : list liv) : N := fold_right (fun iv m => N.max (lstop iv - lstart iv) m) 0 l.
(** [Interval::overlap] *)
Definition overlap (s e : N) (iv : liv) : bool := (lstart iv <? e) && (s <? lstop iv).

(** [Lapper::lower_bound]; [None] = slice index out of bounds (a panic) *)
Fixpoint lb_loop (fuel : nat) (key : N) (ivs : list liv) (size low : nat) : option nat :=
  match fuel with
  | O => Some low
  | S fuel' =>
    if Nat.eqb size 0 then Some low else
    let half := Nat.div2 size in
    let other_half := (size - half)%nat in
    let probe := (low + half)%nat in
    let other_low := (low + other_half)%nat in
    match nth_error ivs probe with
    | None => None
    | Some v => lb_loop fuel' key ivs half (if lstart v <? key then other_low else low)
    end
  end.
Definition lower_bound (key : N) (ivs : list liv) : option nat :=
  lb_loop (S (length ivs)) key ivs (length ivs) 0%nat.

(** the [IterFind] loop *)
Fixpoint scan (s e : N) (l : list liv) : list liv :=
  match l with
  | [] => []
  | iv :: r => if overlap s e iv then iv :: scan s e r
               else if e <=? lstart iv then [] else scan s e r
  end.

Record lapper := { ivs : list liv; mlen : N }.
Definition lap_new (l : list liv) : lapper := {| ivs := sort l; mlen := max_len (sort l) |}.
(** [checked_sub(max_len).unwrap_or(0)] is [N] subtraction *)
Definition lap_find (lp : lapper) (s e : N) : option (list liv) :=
  match lower_bound (s - mlen lp) (ivs lp) with
  | None => None
  | Some off => Some (scan s e (skipn off (ivs lp)))
  end.
End Lap.
Arguments lstart {V}. Arguments lstop {V}. Arguments lval {V}. Arguments Build_liv {V}.
Arguments ivs {V}. Arguments mlen {V}. Arguments lap_new {V}. Arguments lap_find {V}.
Arguments sort {V}. Arguments overlap {V}. Arguments max_len {V}. Arguments scan {V}.
Arguments lower_bound {V}. Arguments insert {V}. Arguments liv_le {V}. Arguments lb_loop {V}.
