(** Model of the subset of omics-coordinate 0.2.0 that chainfile uses
    (interbase coordinates and intervals).  Transcribed from the crate's source. *)
Require Import CF.Model.Base.

(** omics [Interval<Interbase>]: every value is built by [try_new], so both ends share
    contig and strand; [ia] is the start position and [ib] the end position. *)
Record ival := { ictg : contig; istr : strand; ia : N; ib : N }.
Definition istart i := {| cctg := ictg i; cstr := istr i; cpos := ia i |}.
Definition iend i := {| cctg := ictg i; cstr := istr i; cpos := ib i |}.

Inductive ierr := MismatchedContigs | MismatchedStrands | NegativelySized.
(** interval.rs:252 *)
Definition ival_try_new (s e : coord) : result ierr ival :=
  if negb (contig_eqb (cctg s) (cctg e)) then Err MismatchedContigs
  else if negb (strand_eqb (cstr s) (cstr e)) then Err MismatchedStrands
  else match cstr s with
       | Pos => if cpos e <? cpos s then Err NegativelySized
                else Ok {| ictg := cctg s; istr := Pos; ia := cpos s; ib := cpos e |}
       | Neg => if cpos s <? cpos e then Err NegativelySized
                else Ok {| ictg := cctg s; istr := Neg; ia := cpos s; ib := cpos e |}
       end.

(** coordinate.rs move_forward / move_backward: checked, strand-directed *)
Definition move_forward (c : coord) (m : N) : option coord :=
  if m =? 0 then Some c else
  option_map (fun p => {| cctg := cctg c; cstr := cstr c; cpos := p |})
    (match cstr c with Pos => checked_add (cpos c) m | Neg => checked_sub (cpos c) m end).
Definition move_backward (c : coord) (m : N) : option coord :=
  if m =? 0 then Some c else
  option_map (fun p => {| cctg := cctg c; cstr := cstr c; cpos := p |})
    (match cstr c with Pos => checked_sub (cpos c) m | Neg => checked_add (cpos c) m end).

(** interval.rs:614 *)
Definition contains_coordinate (i : ival) (c : coord) : bool :=
  contig_eqb (ictg i) (cctg c) && strand_eqb (istr i) (cstr c) &&
  match istr i with
  | Pos => (ia i <=? cpos c) && (cpos c <=? ib i)
  | Neg => (cpos c <=? ia i) && (ib i <=? cpos c)
  end.
(** [distance_unchecked]: |a - b| *)
Definition dist (a b : N) : N := N.max a b - N.min a b.
Definition count_entities (i : ival) : N := dist (ia i) (ib i).
(** interval.rs:941 *)
Definition coordinate_offset (i : ival) (c : coord) : option N :=
  if contains_coordinate i c then Some (dist (cpos c) (ia i)) else None.
(** interval.rs:1024 *)
Definition coordinate_at_offset (i : ival) (off : N) : option coord :=
  match move_forward (istart i) off with
  | Some c => if contains_coordinate i c then Some c else None
  | None => None
  end.

Inductive cerr := ClampContigs | ClampStrand.
(** interval.rs:853 [Interval::clamp], with its final [try_new(..).unwrap()] as [Panic 1] *)
Definition ival_clamp (i op : ival) : outcome (result cerr ival) :=
  if negb (contig_eqb (ictg i) (ictg op)) then Val (Err ClampContigs)
  else if negb (strand_eqb (istr i) (istr op)) then Val (Err ClampStrand)
  else
    let '(ns, ne) := match istr i with
                     | Pos => (N.max (ia i) (ia op), N.min (ib i) (ib op))
                     | Neg => (N.min (ia i) (ia op), N.max (ib i) (ib op))
                     end in
    match ival_try_new {| cctg := ictg i; cstr := istr i; cpos := ns |}
                       {| cctg := ictg i; cstr := istr i; cpos := ne |} with
    | Ok r => Val (Ok r)
    | Err _ => Panic 1
    end.
