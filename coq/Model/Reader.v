(** src/reader.rs over a scripted [BufRead], with [std::io::BufRead::read_until]/[read_line]
    transcribed from the standard library (fill_buf / memchr / consume loop, retry on Interrupted,
    UTF-8 validation of the appended bytes). *)
Require Import CF.Model.Base CF.Model.Text CF.Model.Records.

(** What the underlying reader does at successive [fill_buf] calls: deliver a non-empty chunk,
    fail transiently with [ErrorKind::Interrupted], or fail hard.  After the last event: EOF. *)
Inductive event := Chunk (b : bytes) | Interrupted | Fail.
Record src := { pending : bytes; future : list event }.
Definition src_of_bytes (b : bytes) : src := {| pending := b; future := [] |}.

Inductive ioerr := IoFail | IoUtf8.

(** split a buffer after its first LF: (taken incl. LF, rest, found) *)
Fixpoint take_line (c : bytes) : bytes * bytes * bool :=
  match c with
  | [] => ([], [], false)
  | b :: r => if b =? LF then ([b], r, true)
              else let '(t, rest, f) := take_line r in (b :: t, rest, f)
  end.

(** [read_until(b'\n')] once the pending buffer is exhausted *)
Fixpoint ru (fut : list event) (acc : bytes) : result unit bytes * src :=
  match fut with
  | [] => (Ok acc, {| pending := []; future := [] |})
  | Interrupted :: f => ru f acc
  | Fail :: f => (Err tt, {| pending := []; future := f |})
  | Chunk c :: f =>
    let '(t, rest, found) := take_line c in
    if found then (Ok (acc ++ t), {| pending := rest; future := f |})
    else ru f (acc ++ t)
  end.
Definition read_until (s : src) : result unit bytes * src :=
  let '(t, rest, found) := take_line (pending s) in
  if found then (Ok t, {| pending := rest; future := future s |})
  else ru (future s) t.

(** [core::str::from_utf8(..).is_ok()] (Unicode 15, table 3-7) *)
Definition cont (b : N) : bool := (128 <=? b) && (b <=? 191).
Fixpoint utf8_valid (s : bytes) : bool :=
  match s with
  | [] => true
  | b0 :: r0 =>
    if b0 <? 128 then utf8_valid r0
    else match r0 with
    | [] => false
    | b1 :: r1 =>
      if (194 <=? b0) && (b0 <=? 223) then cont b1 && utf8_valid r1
      else match r1 with
      | [] => false
      | b2 :: r2 =>
        if b0 =? 224 then (160 <=? b1) && (b1 <=? 191) && cont b2 && utf8_valid r2
        else if ((225 <=? b0) && (b0 <=? 236)) || (b0 =? 238) || (b0 =? 239) then cont b1 && cont b2 && utf8_valid r2
        else if b0 =? 237 then (128 <=? b1) && (b1 <=? 159) && cont b2 && utf8_valid r2
        else match r2 with
        | [] => false
        | b3 :: r3 =>
          if b0 =? 240 then (144 <=? b1) && (b1 <=? 191) && cont b2 && cont b3 && utf8_valid r3
          else if (241 <=? b0) && (b0 <=? 243) then cont b1 && cont b2 && cont b3 && utf8_valid r3
          else if b0 =? 244 then (128 <=? b1) && (b1 <=? 143) && cont b2 && cont b3 && utf8_valid r3
          else false
        end
      end
    end
  end.

(** strip one trailing LF and then one trailing CR (reader.rs:264) *)
(* [rev'] is the linear-time reversal ([List.rev] is quadratic, which matters for very long lines) *)
Definition rev' (l : bytes) : bytes := rev_append l [].
Definition strip_eol (l : bytes) : bytes :=
  match rev' l with
  | x :: r => if x =? LF
              then match r with
                   | y :: r' => if y =? CR then rev' r' else rev' r
                   | [] => []
                   end
              else l
  | [] => l
  end.

(** the outcome of one [Reader::read_line_raw]: [ROk n text] with [n] the byte count incl.
    terminators and [text] the line without them; [REof] is [Ok(0)]; [RErr e n] an error after
    consuming [n] bytes (n is only meaningful for [IoUtf8]) *)
Inductive rawres := ROk (n : N) (text : bytes) | RErr (e : ioerr) (n : N) | REof.
Definition read_line_raw (s : src) : rawres * src :=
  match read_until s with
  | (Err _, s') => (RErr IoFail 0, s')
  | (Ok l, s') =>
    if negb (utf8_valid l) then (RErr IoUtf8 (N.of_nat (length l)), s')
    else match l with
         | [] => (REof, s')
         | _ => (ROk (N.of_nat (length l)) (strip_eol l), s')
         end
  end.

Definition src_size (s : src) : nat :=
  length (pending s) + fold_right (fun e n => match e with Chunk c => S (length c + n) | _ => S n end) 0%nat (future s).

(** The stream of raw reads the reader delivers up to (excluding) end of input.  All reading
    methods of [Reader] are functions of this stream consumed one element at a time. *)
Fixpoint raw_reads_fuel (fuel : nat) (s : src) : list rawres :=
  match fuel with
  | O => []
  | S f => match read_line_raw s with
           | (REof, _) => []
           | (r, s') => r :: raw_reads_fuel f s'
           end
  end.
Definition raw_reads (s : src) : list rawres := raw_reads_fuel (S (src_size s)) s.

(** [Reader::read_line]: one raw read, parsed *)
Inductive rline := RBlank | RHdr (h : header) | RData (d : drec) | RBad (e : lineerr) (text : bytes) | RIo (e : ioerr).
Definition classify (r : rawres) : rline :=
  match r with
  | RErr e _ => RIo e
  | REof => RBlank (* never used: the stream excludes EOF *)
  | ROk _ t => match parse_line t with
               | Ok LEmpty => RBlank
               | Ok (LHeader h) => RHdr h
               | Ok (LData d) => RData d
               | Err e => RBad e t
               end
  end.
