(** src/liftover/machine.rs and src/liftover/machine/builder.rs *)
Require Import CF.Model.Base CF.Model.Omics CF.Model.Pair CF.Model.Records CF.Model.Reader
  CF.Model.Sections CF.Model.StepThrough CF.Model.Lapper.

Definition dict := list (contig * N).
Fixpoint dict_get (d : dict) (k : contig) : option N :=
  match d with [] => None | (k', v) :: r => if contig_eqb k' k then Some v else dict_get r k end.
(** [ChromosomeDictionaryBuilder::update] (after the repair of finding F6: an error, not an assert);
    [None] = conflicting size *)
Definition dict_update (d : dict) (k : contig) (v : N) : option dict :=
  match dict_get d k with
  | Some v' => if v' =? v then Some d else None
  | None => Some (d ++ [(k, v)])
  end.

Definition iv := liv pair.
(** [HashMap<Contig, Vec<Iv>>] as an association list in first-seen order *)
Definition ivmap := list (contig * list iv).
Fixpoint ivmap_push (m : ivmap) (k : contig) (x : iv) : ivmap :=
  match m with
  | [] => [(k, [x])]
  | (k', v) :: r => if contig_eqb k' k then (k', v ++ [x]) :: r else (k', v) :: ivmap_push r k x
  end.

(** the key under which a pair is indexed: its forward reference extent *)
Definition fwd_extent (i : ival) : N * N :=
  match istr i with Pos => (ia i, ib i) | Neg => (ib i, ia i) end.
Definition iv_of_pair (p : pair) : iv :=
  let '(s, e) := fwd_extent (pref p) in {| lstart := s; lstop := e; lval := p |}.

Record bstate := { bhm : ivmap; bref : dict; bqry : dict }.
Inductive builderr := BSections (e : secerr) | BStep (e : sterr) | BConflict.

(** the inner [for pair_result in section.stepthrough()] loop: stops at the first error;
    zero-sized blocks are not indexed (repair of finding F7) *)
Fixpoint push_items (hm : ivmap) (items : list stitem) : result sterr ivmap :=
  match items with
  | [] => Ok hm
  | Err e :: _ => Err e
  | Ok (p, _) :: r =>
    if count_entities (pref p) =? 0 then push_items hm r
    else push_items (ivmap_push hm (ictg (pref p)) (iv_of_pair p)) r
  end.

Definition add_section (b : bstate) (sec : section) : outcome (result builderr bstate) :=
  let h := shdr sec in
  match dict_update (bqry b) (sname (hqry h)) (ssize (hqry h)) with
  | None => Val (Err BConflict)
  | Some qd =>
    match dict_update (bref b) (sname (href h)) (ssize (href h)) with
    | None => Val (Err BConflict)
    | Some rd =>
      match st_new sec with
      | Err e => Val (Err (BStep e))
      | Ok s =>
        let '(items, ended) := st_drain (length (sdata sec) + 2) s in
        if negb ended then Panic 98 (* out of fuel: excluded by theorem *)
        else match push_items (bhm b) items with
             | Err e => Val (Err (BStep e))
             | Ok hm => Val (Ok {| bhm := hm; bref := rd; bqry := qd |})
             end
      end
    end
  end.

(** the outer [for result in reader.sections()] loop *)
Fixpoint build_loop (fuel : nat) (it : siter) (rs : list rawres) (b : bstate) : outcome (result builderr bstate) :=
  match fuel with
  | O => Panic 99 (* out of fuel: excluded by theorem *)
  | S f =>
    match sections_next it rs with
    | Panic s => Panic s
    | Val (None, _, _) => Val (Ok b)
    | Val (Some (Err e), _, _) => Val (Err (BSections e))
    | Val (Some (Ok sec), it', rs') =>
      match add_section b sec with
      | Panic s => Panic s
      | Val (Err e) => Val (Err e)
      | Val (Ok b') => build_loop f it' rs' b'
      end
    end
  end.

Record machine := { minner : list (contig * lapper pair); mref : dict; mqry : dict }.
Definition machine_of_bstate (b : bstate) : machine :=
  {| minner := map (fun kv => (fst kv, lap_new (snd kv))) (bhm b); mref := bref b; mqry := bqry b |}.

(** [Builder::try_build_from] over the reader's stream of raw reads *)
Definition build_reads (rs : list rawres) : outcome (result builderr machine) :=
  match build_loop (length rs + 2) sections_new rs {| bhm := []; bref := []; bqry := [] |} with
  | Panic s => Panic s
  | Val (Err e) => Val (Err e)
  | Val (Ok b) => Val (Ok (machine_of_bstate b))
  end.
Definition build (s : src) : outcome (result builderr machine) := build_reads (raw_reads s).

Fixpoint inner_get (m : list (contig * lapper pair)) (k : contig) : option (lapper pair) :=
  match m with [] => None | (k', v) :: r => if contig_eqb k' k then Some v else inner_get r k end.

(** the [.map(clamp).unwrap()] over the hits; [Panic 40] = clamp returned an error *)
Fixpoint clamp_all (hits : list pair) (i : ival) : outcome (list pair) :=
  match hits with
  | [] => Val []
  | p :: r =>
    match pair_clamp p i with
    | Panic s => Panic s
    | Val (Err _) => Panic 40
    | Val (Ok c) => match clamp_all r i with Panic s => Panic s | Val l => Val (c :: l) end
    end
  end.

(** [Machine::liftover]; [Panic 41] = slice index out of bounds inside rust-lapper *)
Definition liftover (m : machine) (i : ival) : outcome (option (list pair)) :=
  match inner_get (minner m) (ictg i) with
  | None => Val None
  | Some lp =>
    let '(s, e) := fwd_extent i in
    match lap_find lp s e with
    | None => Panic 41
    | Some hits =>
      let sel := filter (fun p => strand_eqb (istr (pref p)) (istr i)) (map lval hits) in
      match clamp_all sel i with
      | Panic s => Panic s
      | Val [] => Val None
      | Val l => Val (Some l)
      end
    end
  end.
