(** Base definitions of the executable model: u64 arithmetic, outcomes, strands, contigs,
    coordinates.  Definitions only (no proofs) so that the model still runs when a proof breaks. *)
From Coq Require Export NArith List Bool.
Export ListNotations.
Open Scope N_scope.
Global Arguments N.add : simpl never.
Global Arguments N.sub : simpl never.
Global Arguments N.mul : simpl never.
Global Arguments N.ltb : simpl never.
Global Arguments N.leb : simpl never.
Global Arguments N.eqb : simpl never.
Global Arguments N.max : simpl never.
Global Arguments N.min : simpl never.
Global Arguments N.div : simpl never.
Global Arguments N.modulo : simpl never.

(** [u64::MAX] *)
Definition U64MAX : N := 18446744073709551615.
Definition checked_add (a b : N) : option N := if a + b <=? U64MAX then Some (a + b) else None.
Definition checked_sub (a b : N) : option N := if b <=? a then Some (a - b) else None.

(** A Rust call either returns a value or panics at a numbered site. *)
Inductive outcome (A : Type) := Val (a : A) | Panic (site : N).
Arguments Val {A}. Arguments Panic {A}.
Inductive result (E A : Type) := Ok (a : A) | Err (e : E).
Arguments Ok {E A}. Arguments Err {E A}.

Definition obind {A B} (o : outcome A) (f : A -> outcome B) : outcome B :=
  match o with Val a => f a | Panic s => Panic s end.

Inductive strand := Pos | Neg.
Definition strand_eqb a b := match a, b with Pos, Pos | Neg, Neg => true | _, _ => false end.

(** Bytes are [N] below 256; strings are byte lists. *)
Definition bytes := list N.
Fixpoint bytes_eqb (a b : bytes) : bool :=
  match a, b with
  | [], [] => true
  | x :: a', y :: b' => (x =? y) && bytes_eqb a' b'
  | _, _ => false
  end.
Definition contig := bytes.
Definition contig_eqb (a b : contig) : bool := bytes_eqb a b.

(** omics [Coordinate<Interbase>] *)
Record coord := { cctg : contig; cstr : strand; cpos : N }.
Definition coord_eqb (a b : coord) : bool :=
  contig_eqb (cctg a) (cctg b) && strand_eqb (cstr a) (cstr b) && (cpos a =? cpos b).
