(** src/alignment/section/sections.rs: the section iterator, over the stream of raw reads. *)
Require Import CF.Model.Base CF.Model.Text CF.Model.Records CF.Model.Reader.

Inductive sstate := InBetween | Reading.
(** [Section]: header + [NonEmpty<data::Record>] (head, tail) *)
Record section := { shdr : header; sdata : list drec }.
Inductive secerr :=
| EAbrupt | EBlank (ln : N) | EDataBetween (d : drec) | EHdrIn (h : header)
| EBadLine (e : lineerr) (text : bytes) | EIo (e : ioerr)
| EBuilderMissingData | EBuilderMultipleHeader.
Definition sitem := result secerr section.

(** [get_state] *)
Definition get_state (st : sstate) (l : rline) (ln : N) : result secerr sstate :=
  match st, l with
  | InBetween, RBlank => Ok InBetween
  | InBetween, RHdr _ => Ok Reading
  | InBetween, RData d => Err (EDataBetween d)
  | Reading, RBlank => Err (EBlank ln)
  | Reading, RHdr h => Err (EHdrIn h)
  | Reading, RData d => if dterm d then Ok InBetween else Ok Reading
  | _, _ => Ok st (* RBad / RIo never reach get_state *)
  end.

(** step (4) of the loop: the per-call section builder; the two [unreachable!()] arms are
    [Panic 10] (header with a builder) and [Panic 11] (data without one) *)
Definition upd (b : option section) (l : rline) : outcome (option section) :=
  match b, l with
  | Some s, RData d => Val (Some {| shdr := shdr s; sdata := sdata s ++ [d] |})
  | Some s, RBlank => Val (Some s)
  | Some _, RHdr _ => Panic 10
  | None, RData _ => Panic 11
  | None, RBlank => Val None
  | None, RHdr h => Val (Some {| shdr := h; sdata := [] |})
  | b, _ => Val b
  end.

(** the iterator: state, line counter, and the reads not yet consumed *)
Record siter := { sst : sstate; sln : N }.
Definition ret := (option sitem * siter * list rawres)%type.

(** [Sections::next] (after the repair of findings F1/F2: every error path leaves the
    in-section state). *)
Fixpoint sloop (b : option section) (st : sstate) (ln : N) (rs : list rawres) : outcome ret :=
  match rs with
  | [] => (* read returns Ok(None): line_no is still incremented *)
    match st with
    | InBetween => Val (None, {| sst := InBetween; sln := ln + 1 |}, [])
    | Reading => Val (Some (Err EAbrupt), {| sst := InBetween; sln := ln + 1 |}, [])
    end
  | r :: rest =>
    match classify r with
    | RIo e => Val (Some (Err (EIo e)), {| sst := InBetween; sln := ln |}, rest)
    | RBad e t => Val (Some (Err (EBadLine e t)), {| sst := InBetween; sln := ln |}, rest)
    | l =>
      match get_state st l (ln + 1) with
      | Err e => Val (Some (Err e), {| sst := InBetween; sln := ln + 1 |}, rest)
      | Ok st' =>
        match upd b l with
        | Panic s => Panic s
        | Val b' =>
          match st', b' with
          | InBetween, Some sec =>
            match sdata sec with
            | [] => Val (Some (Err EBuilderMissingData), {| sst := InBetween; sln := ln + 1 |}, rest)
            | _ => Val (Some (Ok sec), {| sst := InBetween; sln := ln + 1 |}, rest)
            end
          | _, _ => sloop b' st' (ln + 1) rest
          end
        end
      end
    end
  end.
Definition sections_next (it : siter) (rs : list rawres) : outcome ret := sloop None (sst it) (sln it) rs.
Definition sections_new : siter := {| sst := InBetween; sln := 0 |}.

(** The same iterator before the repair (state untouched on error paths); for [_refuted] only. *)
Fixpoint sloop_old (b : option section) (st : sstate) (ln : N) (rs : list rawres) : outcome ret :=
  match rs with
  | [] =>
    match st with
    | InBetween => Val (None, {| sst := InBetween; sln := ln + 1 |}, [])
    | Reading => Val (Some (Err EAbrupt), {| sst := Reading; sln := ln + 1 |}, [])
    end
  | r :: rest =>
    match classify r with
    | RIo e => Val (Some (Err (EIo e)), {| sst := st; sln := ln |}, rest)
    | RBad e t => Val (Some (Err (EBadLine e t)), {| sst := st; sln := ln |}, rest)
    | l =>
      match get_state st l (ln + 1) with
      | Err e => Val (Some (Err e), {| sst := st; sln := ln + 1 |}, rest)
      | Ok st' =>
        match upd b l with
        | Panic s => Panic s
        | Val b' =>
          match st', b' with
          | InBetween, Some sec =>
            match sdata sec with
            | [] => Val (Some (Err EBuilderMissingData), {| sst := InBetween; sln := ln + 1 |}, rest)
            | _ => Val (Some (Ok sec), {| sst := InBetween; sln := ln + 1 |}, rest)
            end
          | _, _ => sloop_old b' st' (ln + 1) rest
          end
        end
      end
    end
  end.

(** draining the iterator: items, whether it ended within the fuel, and what is left unread *)
Fixpoint sdrain (fuel : nat) (it : siter) (rs : list rawres) : outcome (list sitem * bool) :=
  match fuel with
  | O => Val ([], false)
  | S f => match sections_next it rs with
           | Panic s => Panic s
           | Val (None, _, _) => Val ([], true)
           | Val (Some x, it', rs') =>
             match sdrain f it' rs' with
             | Panic s => Panic s
             | Val (l, e) => Val (x :: l, e)
             end
           end
  end.
