(** Model of src/liftover/stepthrough/interval_pair.rs *)
Require Import CF.Model.Base CF.Model.Omics.

Record pair := { pref : ival; pqry : ival }.
Inductive perr := EntityCounts | PInterval (e : cerr).

(** [ContiguousIntervalPair::try_new] *)
Definition pair_try_new (r q : ival) : result perr pair :=
  if negb (count_entities r =? count_entities q) then Err EntityCounts
  else Ok {| pref := r; pqry := q |}.

(** [ContiguousIntervalPair::liftover] *)
Definition pair_liftover (p : pair) (c : coord) : option coord :=
  match coordinate_offset (pref p) c with
  | Some off => coordinate_at_offset (pqry p) off
  | None => None
  end.

(** [ContiguousIntervalPair::clamp]; each [unwrap()] is a numbered [Panic] site:
    1 = the unwrap inside omics [Interval::clamp]; 2 = liftover of the start;
    3 = [move_backward(1).filter(contains).unwrap()]; 4 = liftover of end-1;
    5 = [move_forward(1).unwrap()]; 6 = [Interval::try_new(..).unwrap()].
    An empty intersection maps to the empty query interval at the image of its start. *)
Definition pair_clamp (p : pair) (iv : ival) : outcome (result perr pair) :=
  match ival_clamp (pref p) iv with
  | Panic s => Panic s
  | Val (Err e) => Val (Err (PInterval e))
  | Val (Ok r) =>
    match pair_liftover p (istart r) with
    | None => Panic 2
    | Some qs =>
      if count_entities r =? 0 then
        match ival_try_new qs qs with Err _ => Panic 6 | Ok q => Val (pair_try_new r q) end
      else
      match move_backward (iend r) 1 with
      | None => Panic 3
      | Some e1 =>
        if negb (contains_coordinate (pref p) e1) then Panic 3 else
        match pair_liftover p e1 with
        | None => Panic 4
        | Some qe1 =>
          match move_forward qe1 1 with
          | None => Panic 5
          | Some qe =>
            match ival_try_new qs qe with
            | Err _ => Panic 6
            | Ok q => Val (pair_try_new r q)
            end
          end
        end
      end
    end
  end.

(** The same function before the repair of finding F3 (kept only for the [_refuted] witness). *)
Definition pair_clamp_old (p : pair) (iv : ival) : outcome (result perr pair) :=
  match ival_clamp (pref p) iv with
  | Panic s => Panic s
  | Val (Err e) => Val (Err (PInterval e))
  | Val (Ok r) =>
    match pair_liftover p (istart r) with
    | None => Panic 2
    | Some qs =>
      match move_backward (iend r) 1 with
      | None => Panic 3
      | Some e1 =>
        if negb (contains_coordinate (pref p) e1) then Panic 3 else
        match pair_liftover p e1 with
        | None => Panic 4
        | Some qe1 =>
          match move_forward qe1 1 with
          | None => Panic 5
          | Some qe =>
            match ival_try_new qs qe with
            | Err _ => Panic 6
            | Ok q => Val (pair_try_new r q)
            end
          end
        end
      end
    end
  end.
