(** The case protocol of the correspondence check, written in Gallina so that the extracted
    driver and the in-Coq [vm_compute] cross-check evaluate exactly the same function:
    [run_case : bytes -> bytes] maps one ASCII case line to one ASCII result line.  The Rust
    harness (/verif/harness) implements the same protocol over the real crate. *)
Require Import CF.Model.Base CF.Model.Omics CF.Model.Pair CF.Model.Text CF.Model.Records
  CF.Model.Reader CF.Model.Sections CF.Model.StepThrough CF.Model.Lapper CF.Model.Machine CF.Model.Ops.

Definition str (l : list N) : bytes := l.
(* small ASCII helpers *)
Definition COLON : N := 58. Definition COMMA : N := 44. Definition SLASH : N := 47.
Definition GT : N := 62. Definition SEMI : N := 59. Definition BAR : N := 124. Definition EQ : N := 61.
Definition XCH : N := 120.

Definition show_N (n : N) : bytes := print_digits 60 n [].
Definition show_x (b : bytes) : bytes := XCH :: hex_enc b.
Definition show_strand (s : strand) : bytes := print_strand s.
Definition show_coord (c : coord) : bytes :=
  show_x (cctg c) ++ COLON :: show_strand (cstr c) ++ COLON :: show_N (cpos c).
Definition show_ival (i : ival) : bytes :=
  show_x (ictg i) ++ COLON :: show_strand (istr i) ++ COLON :: show_N (ia i) ++ COLON :: show_N (ib i).
Definition show_pair (p : pair) : bytes := show_ival (pref p) ++ GT :: show_ival (pqry p).
Definition show_opt (o : option N) : bytes := match o with Some n => show_N n | None => [MINUS] end.
Definition show_drec (d : drec) : bytes :=
  show_N (dsize d) ++ SLASH :: show_opt (ddt d) ++ SLASH :: show_opt (ddq d) ++ SLASH :: [if dterm d then 84 else 78].
Definition show_seq (s : seqrec) : bytes :=
  show_x (sname s) ++ COLON :: show_N (ssize s) ++ COLON :: show_strand (sstrand s) ++ COLON :: show_N (sstart s)
  ++ COLON :: show_N (send s).
Definition show_header (h : header) : bytes :=
  show_N (hscore h) ++ SLASH :: show_seq (href h) ++ SLASH :: show_seq (hqry h) ++ SLASH :: show_N (hid h).

(* words *)
Definition w_ok := [111;107]. Definition w_err := [101;114;114]. Definition w_panic := [112;97;110;105;99].
Definition w_none := [110;111;110;101]. Definition w_some := [115;111;109;101].
Definition w_badival := [98;97;100;105;118;97;108]. Definition w_badcase := [98;97;100;99;97;115;101].
Definition w_badrec := [98;97;100;114;101;99].
Definition w_end := [101;110;100]. Definition w_cap := [99;97;112].
Definition w_counts := [99;111;117;110;116;115]. Definition w_ctg := [99;116;103]. Definition w_strand := [115;116;114;97;110;100].
Definition w_empty := [101;109;112;116;121]. Definition w_hdr := [104;100;114]. Definition w_dat := [100;97;116].
Definition w_io := [105;111]. Definition w_utf8 := [117;116;102;56].
Definition w_abrupt := [97;98;114;117;112;116]. Definition w_blank := [98;108;97;110;107].
Definition w_databetween := [100;97;116;97;98;101;116;119;101;101;110]. Definition w_hdrin := [104;100;114;105;110].
Definition w_badline := [98;97;100;108;105;110;101]. Definition w_builder := [98;117;105;108;100;101;114].
Definition w_oob := [111;111;98]. Definition w_interval := [105;110;116;101;114;118;97;108]. Definition w_pair := [112;97;105;114].
Definition w_misaligned := [109;105;115;97;108;105;103;110;101;100]. Definition w_seq := [115;101;113].
Definition w_sections := [115;101;99;116;105;111;110;115]. Definition w_step := [115;116;101;112].
Definition w_conflict := [99;111;110;102;108;105;99;116]. Definition w_newerr := [110;101;119;101;114;114].
Definition w_eof := [101;111;102].

Definition sp (a b : bytes) : bytes := a ++ SP :: b.
Fixpoint joinw (d : N) (l : list bytes) : bytes :=
  match l with [] => [] | [x] => x | x :: r => x ++ d :: joinw d r end.

(* parsing of case arguments *)
Definition parse_x (t : bytes) : option bytes :=
  match t with c :: r => if c =? XCH then hex_dec r else None | [] => None end.
Definition parse_N (t : bytes) : option N := parse_u64 t.
Definition parse_coord (t : bytes) : option coord :=
  match split COLON t with
  | [c; s; p] => match parse_x c, parse_strand s, parse_N p with
                 | Some c', Some s', Some p' => Some {| cctg := c'; cstr := s'; cpos := p' |}
                 | _, _, _ => None end
  | _ => None
  end.
(* an interval argument "xCTG:S:A:B", built the way the Rust harness builds it: Interval::try_new *)
Definition parse_ival (t : bytes) : option (result ierr ival) :=
  match split COLON t with
  | [c; s; a; b] => match parse_x c, parse_strand s, parse_N a, parse_N b with
                    | Some c', Some s', Some a', Some b' =>
                      Some (ival_try_new {| cctg := c'; cstr := s'; cpos := a' |} {| cctg := c'; cstr := s'; cpos := b' |})
                    | _, _, _, _ => None end
  | _ => None
  end.
Definition parse_optN (t : bytes) : option (option N) :=
  match t with [45] => Some None | _ => match parse_N t with Some n => Some (Some n) | None => None end end.
Definition parse_event (t : bytes) : option event :=
  match t with
  | [105] => Some Interrupted
  | [102] => Some Fail   (* f: ErrorKind::Other *)
  | [117] => Some Fail   (* u: UnexpectedEof *)
  | [114] => Some Fail   (* r: ConnectionReset *)
  | [119] => Some Fail   (* w: WouldBlock *)
  | 99 :: r => match hex_dec r with Some b => Some (Chunk b) | None => None end
  | _ => None
  end.
Fixpoint parse_events (ts : list bytes) : option (list event) :=
  match ts with
  | [] => Some []
  | t :: r => match parse_event t, parse_events r with
              | Some e, Some es => Some (match e with Chunk [] => es | _ => e :: es end)
              | _, _ => None end
  end.
Definition parse_src (t : bytes) : option src :=
  match t with
  | [45] => Some {| pending := []; future := [] |}
  | _ => match parse_events (split COMMA t) with
         | Some es => Some {| pending := []; future := es |}
         | None => None end
  end.

(* show errors *)
Definition show_ioerr (e : ioerr) : bytes := match e with IoFail => w_io | IoUtf8 => w_utf8 end.
Definition show_secerr (e : secerr) : bytes :=
  match e with
  | EAbrupt => w_abrupt
  | EBlank n => w_blank ++ COLON :: show_N n
  | EDataBetween d => w_databetween ++ COLON :: show_drec d
  | EHdrIn h => w_hdrin ++ COLON :: show_header h
  | EBadLine (LEHeader _) t => w_badline ++ COLON :: 104 :: COLON :: show_x t
  | EBadLine (LEData _) t => w_badline ++ COLON :: 100 :: COLON :: show_x t
  | EIo e => show_ioerr e
  | EBuilderMissingData | EBuilderMultipleHeader => w_builder
  end.
(* Error kinds no property speaks about are not part of the compared observable (a harmless reordering of
   validations must not break the correspondence): every step-through error prints as "step". *)
Definition show_sterr (e : sterr) : bytes := w_step.
Definition show_builderr (e : builderr) : bytes :=
  match e with
  | BSections e => w_sections ++ COLON :: show_secerr e
  | BStep _ => [105;110;118;97;108;105;100]      (* "invalid" *)
  | BConflict => [105;110;118;97;108;105;100]
  end.
Definition show_seqerr (e : seqerr) : bytes := w_seq.
Definition show_hdrerr (e : hdrerr) : bytes :=
  match e with
  | HFields n => [102] ++ show_N n | HPrefix => [112;114;101;102;105;120] | HScore => [115;99;111;114;101]
  | HRef e => [114;101;102] ++ COLON :: show_seqerr e | HQry e => [113;114;121] ++ COLON :: show_seqerr e
  | HId => [105;100] | HEndExceeds => [101;120;99;101;101;100;115]
  end.
Definition show_drecerr (e : drecerr) : bytes :=
  match e with
  | DNonTermDt => [110;116;100;116] | DNonTermDq => [110;116;100;113] | DTermDt => [116;100;116] | DTermDq => [116;100;113]
  | DFields n => [102] ++ show_N n | DSize => [115;105;122;101] | DDt => [100;116] | DDq => [100;113]
  end.

Definition show_perr (e : perr) : bytes :=
  match e with EntityCounts => w_counts | PInterval ClampContigs => w_ctg | PInterval ClampStrand => w_strand end.

Definition show_section (s : section) : bytes :=
  83 :: 40 :: show_header (shdr s) ++ SEMI :: joinw COMMA (map show_drec (sdata s)) ++ [41].
Definition show_sitem (x : sitem) : bytes :=
  match x with Ok s => show_section s | Err e => 69 :: 40 :: show_secerr e ++ [41] end.
Definition show_stitem (x : stitem) : bytes :=
  match x with
  | Ok (p, d) => 80 :: 40 :: show_pair p ++ SEMI :: show_drec d ++ [41]
  | Err e => 69 :: 40 :: show_sterr e ++ [41]
  end.
Definition show_line (l : line) : bytes :=
  match l with
  | LEmpty => w_empty
  | LHeader h => w_hdr ++ COLON :: show_header h ++ COLON :: match print_line l with Val p => show_x p | Panic _ => w_panic end
  | LData d => w_dat ++ COLON :: show_drec d ++ COLON :: match print_line l with Val p => show_x p | Panic _ => w_panic end
  end.
Definition show_lineres (r : result lineerr line) : bytes :=
  match r with
  | Ok l => show_line l
  | Err (LEHeader e) => w_err ++ COLON :: w_hdr
  | Err (LEData e) => w_err ++ COLON :: w_dat
  end.

(* dictionaries are printed sorted by key so that hash order never shows *)
Fixpoint bytes_ltb (a b : bytes) : bool :=
  match a, b with
  | [], [] => false | [], _ => true | _, [] => false
  | x :: a', y :: b' => (x <? y) || ((x =? y) && bytes_ltb a' b')
  end.
Fixpoint dins (kv : contig * N) (l : dict) : dict :=
  match l with [] => [kv] | h :: r => if bytes_ltb (fst kv) (fst h) then kv :: l else h :: dins kv r end.
Definition show_dict (d : dict) : bytes :=
  joinw COMMA (map (fun kv => show_x (fst kv) ++ EQ :: show_N (snd kv)) (fold_right dins [] d)).

(* the per-contig index in stored (sorted) order, contigs sorted by name *)
Fixpoint iins (kv : contig * lapper pair) (l : list (contig * lapper pair)) : list (contig * lapper pair) :=
  match l with [] => [kv] | h :: r => if bytes_ltb (fst kv) (fst h) then kv :: l else h :: iins kv r end.
Definition show_liv (x : liv pair) : bytes := show_N (lstart x) ++ MINUS :: show_N (lstop x) ++ EQ :: show_pair (lval x).
Definition show_inner (m : list (contig * lapper pair)) : bytes :=
  joinw SP (map (fun kv => show_x (fst kv) ++ EQ :: 91 :: joinw COMMA (map show_liv (ivs (snd kv))) ++ [93]) (fold_right iins [] m)).

Definition show_lift (r : outcome (option (list pair))) : bytes :=
  match r with
  | Panic _ => w_panic
  | Val None => w_none
  | Val (Some l) => w_some ++ 91 :: joinw COMMA (map show_pair l) ++ [93]
  end.

Definition CAP : nat := 60.

(* reader operation histories (C17): printed from the semantic trace of Model/Ops.v *)
Definition parse_op (b : N) : option op :=
  if b =? 114 then Some OpRaw else if b =? 112 then Some OpParsed else if b =? 108 then Some OpLines
  else if b =? 115 then Some OpSec else if b =? 110 then Some OpDrop else None.
Fixpoint parse_ops (t : bytes) : option (list op) :=
  match t with [] => Some [] | b :: r => match parse_op b, parse_ops r with Some o, Some os => Some (o :: os) | _, _ => None end end.
Definition consumed_of (r : rawres) : N := match r with ROk n _ => n | RErr _ n => n | REof => 0 end.
Definition show_raw (r : rawres) : bytes :=
  match r with
  | ROk n t => show_N n ++ COLON :: show_x t
  | RErr e _ => w_err ++ COLON :: show_ioerr e
  | REof => w_eof
  end.
Definition show_parsed (r : rawres) : bytes :=
  match r with
  | ROk _ t => show_lineres (parse_line t)
  | RErr e _ => w_err ++ COLON :: show_ioerr e
  | REof => w_eof
  end.
Definition sum_consumed (l : list rawres) : N := fold_right (fun r a => consumed_of r + a) 0 l.
(* each observation followed by '@' and the cursor position (bytes consumed so far) *)
Fixpoint show_trace (tr : list (obs * list rawres)) (pos : N) : list bytes :=
  match tr with
  | [] => []
  | (ob, used) :: r =>
    let pos' := pos + sum_consumed used in
    match ob with
    | ObsDrop => [110] :: show_trace r pos'
    | ObsPanic => [w_panic]
    | ObsRaw x => (show_raw x ++ [64] ++ show_N pos') :: show_trace r pos'
    | ObsParsed x => (show_parsed x ++ [64] ++ show_N pos') :: show_trace r pos'
    | ObsSec x => ((match x with None => w_end | Some y => show_sitem y end) ++ [64] ++ show_N pos') :: show_trace r pos'
    end
  end.
Definition run_ops_shown (ops : list op) (rs : list rawres) : list bytes :=
  show_trace (fst (run_ops ops {| oreads := rs; oiter := None |})) 0.

Definition run_tokens (ts : list bytes) : bytes :=
  match ts with
  | [cmd; r; q; i] =>
    if bytes_eqb cmd [99;108;97;109;112] (* clamp *) then
      match parse_ival r, parse_ival q, parse_ival i with
      | Some (Ok r'), Some (Ok q'), Some (Ok i') =>
        match pair_try_new r' q' with
        | Err e => sp w_err (show_perr e)
        | Ok p => match pair_clamp p i' with
                  | Panic _ => w_panic
                  | Val (Err e) => sp w_err (show_perr e)
                  | Val (Ok c) => sp w_ok (show_pair c)
                  end
        end
      | Some _, Some _, Some _ => w_badival
      | _, _, _ => w_badcase
      end
    else if bytes_eqb cmd [112;108;105;102;116] (* plift *) then
      match parse_ival r, parse_ival q, parse_coord i with
      | Some (Ok r'), Some (Ok q'), Some c =>
        match pair_try_new r' q' with
        | Err e => sp w_err (show_perr e)
        | Ok p => match pair_liftover p c with None => w_none | Some c' => sp w_some (show_coord c') end
        end
      | Some _, Some _, Some _ => w_badival
      | _, _, _ => w_badcase
      end
    else w_badcase
  | [cmd; a; b] =>
    if bytes_eqb cmd [112;116;114;121] (* ptry *) then
      match parse_ival a, parse_ival b with
      | Some (Ok r'), Some (Ok q') =>
        match pair_try_new r' q' with Err e => sp w_err (show_perr e) | Ok p => sp w_ok (show_pair p) end
      | Some _, Some _ => w_badival
      | _, _ => w_badcase
      end
    else if bytes_eqb cmd [115;116;101;112] (* step <xhdr> <recs> *) then
      match parse_x a with
      | None => w_badcase
      | Some hl =>
        match parse_header hl with
        | Err _ => w_badcase
        | Ok h =>
          let recs := map (fun t => match split SLASH t with
                                    | [s; dt; dq; k] =>
                                      match parse_N s, parse_optN dt, parse_optN dq with
                                      | Some s', Some dt', Some dq' =>
                                        match drec_try_new s' dt' dq' (match k with | [84] => true | _ => false end) with
                                        | Ok d => Some d | Err _ => None end
                                      | _, _, _ => None end
                                    | _ => None end) (split COMMA b) in
          if existsb (fun o => match o with None => true | Some _ => false end) recs then w_badrec else
          let ds := flat_map (fun o => match o with Some d => [d] | None => [] end) recs in
          match st_new {| shdr := h; sdata := ds |} with
          | Err e => w_newerr ++ COLON :: show_sterr e
          | Ok s => let '(items, ended) := st_drain CAP s in
                    joinw SP (map show_stitem items ++ [if ended then w_end else w_cap])
          end
        end
      end
    else if bytes_eqb cmd [98;117;105;108;100] (* build <src> <queries> *) then
      match parse_src a with
      | None => w_badcase
      | Some s =>
        match build s with
        | Panic _ => w_panic
        | Val (Err e) => sp w_err (show_builderr e)
        | Val (Ok m) =>
          let qs := match b with [45] => [] | _ => split COMMA b end in
          joinw SP (w_ok :: ([114;101;102;61] ++ show_dict (mref m)) :: ([113;114;121;61] ++ show_dict (mqry m))
                    :: map (fun t => match parse_ival t with
                                     | Some (Ok i) => show_lift (liftover m i)
                                     | Some (Err _) => w_badival
                                     | None => w_badcase end) qs)
        end
      end
    else if bytes_eqb cmd [111;112;115] (* ops <src> <ops> *) then
      match parse_src a, parse_ops b with
      | Some s, Some os => joinw SP (run_ops_shown os (raw_reads s))
      | _, _ => w_badcase
      end
    else w_badcase
  | [cmd; a] =>
    if bytes_eqb cmd [112;108;105;110;101] (* pline <xline> *) then
      match parse_x a with Some l => show_lineres (parse_line l) | None => w_badcase end
    else if bytes_eqb cmd [115;101;99;116;105;111;110;115] (* sections <src> *) then
      match parse_src a with
      | None => w_badcase
      | Some s =>
        match sdrain CAP sections_new (raw_reads s) with
        | Panic _ => w_panic
        | Val (items, ended) => joinw SP (map show_sitem items ++ [if ended then w_end else w_cap])
        end
      end
    else if bytes_eqb cmd [100;117;109;112] (* dump <src> *) then
      match parse_src a with
      | None => w_badcase
      | Some s =>
        match build s with
        | Panic _ => w_panic
        | Val (Err e) => sp w_err (show_builderr e)
        | Val (Ok m) => joinw SP [w_ok; [114;101;102;61] ++ show_dict (mref m); [113;114;121;61] ++ show_dict (mqry m); show_inner (minner m)]
        end
      end
    else if bytes_eqb cmd [108;105;110;101;115] (* lines <src> *) then
      match parse_src a with
      | None => w_badcase
      | Some s => joinw SP (map show_parsed (raw_reads s) ++ [w_end])
      end
    else if bytes_eqb cmd [114;97;119] (* raw <src> *) then
      match parse_src a with
      | None => w_badcase
      | Some s => joinw SP (map show_raw (raw_reads s) ++ [w_end])
      end
    else w_badcase
  | [cmd; nm; sz; st; a; b] =>
    if bytes_eqb cmd [115;101;113] (* seq <xname> <xsize> <xstrand> <xstart> <xend> *) then
      match parse_x nm, parse_x sz, parse_x st, parse_x a, parse_x b with
      | Some nm', Some sz', Some st', Some a', Some b' =>
        match seq_try_from_parts nm' sz' st' a' b' with
        | Err e => sp w_err (show_seqerr e)
        | Ok s => sp (sp w_ok (show_seq s))
                     (match seq_interval s with Ok i => sp w_ok (show_ival i) | Err e => sp w_err (show_seqerr e) end)
        end
      | _, _, _, _, _ => w_badcase
      end
    else w_badcase
  | [cmd; s; dt; dq; k] =>
    if bytes_eqb cmd [100;114;101;99] (* drec <size> <dt|-> <dq|-> <T|N> *) then
      match parse_N s, parse_optN dt, parse_optN dq with
      | Some s', Some dt', Some dq' =>
        match drec_try_new s' dt' dq' (match k with | [84] => true | _ => false end) with
        | Ok d => sp (sp w_ok (show_drec d)) (match print_drec d with Val p => show_x p | Panic _ => w_panic end)
        | Err e => w_err
        end
      | _, _, _ => w_badcase
      end
    else w_badcase
  | _ => w_badcase
  end.

Definition run_case (line : bytes) : bytes := run_tokens (split SP line).
