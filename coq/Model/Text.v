(** Byte-level text primitives: decimal u64 printing/parsing (as [u64::from_str] and [Display]),
    splitting on a delimiter (as [str::split(char)] for an ASCII delimiter), prefixes, hex. *)
Require Import CF.Model.Base.

Definition SP : N := 32.
Definition TAB : N := 9.
Definition LF : N := 10.
Definition CR : N := 13.
Definition PLUS : N := 43.
Definition MINUS : N := 45.
(** "chain" *)
Definition CHAIN : bytes := [99; 104; 97; 105; 110].

Definition is_digit (b : N) : bool := (48 <=? b) && (b <=? 57).

(** [u64::from_str]: optional single leading '+', then one or more ASCII digits, value <= u64::MAX *)
Fixpoint parse_digits (acc : N) (l : bytes) : option N :=
  match l with
  | [] => Some acc
  | b :: r => if is_digit b
              then let acc' := acc * 10 + (b - 48) in
                   if acc' <=? U64MAX then parse_digits acc' r else None
              else None
  end.
Definition parse_u64 (s : bytes) : option N :=
  match s with
  | [] => None
  | [b] => if is_digit b then Some (b - 48) else None
  | b :: r => if b =? PLUS then parse_digits 0 r else parse_digits 0 s
  end.

(** [Display for u64] *)
Fixpoint print_digits (fuel : nat) (n : N) (acc : bytes) : bytes :=
  match fuel with
  | O => acc
  | S f => let acc' := (48 + n mod 10) :: acc in
           if n / 10 =? 0 then acc' else print_digits f (n / 10) acc'
  end.
Definition print_u64 (n : N) : bytes := print_digits 20 n [].

(** [str::split(d)] for a one-byte delimiter: always at least one field *)
Fixpoint split (d : N) (s : bytes) : list bytes :=
  match s with
  | [] => [[]]
  | b :: r => if b =? d then [] :: split d r
              else match split d r with
                   | [] => [[b]]
                   | f :: fs => (b :: f) :: fs
                   end
  end.
Fixpoint join (d : N) (fs : list bytes) : bytes :=
  match fs with
  | [] => []
  | [f] => f
  | f :: r => f ++ d :: join d r
  end.

Fixpoint starts_with (p s : bytes) : bool :=
  match p, s with
  | [], _ => true
  | x :: p', y :: s' => (x =? y) && starts_with p' s'
  | _ :: _, [] => false
  end.

(** hex, for the case protocol only *)
Definition hex_digit (n : N) : N := if n <? 10 then 48 + n else 87 + n.
Fixpoint hex_enc (s : bytes) : bytes :=
  match s with [] => [] | b :: r => hex_digit (b / 16) :: hex_digit (b mod 16) :: hex_enc r end.
Definition hex_val (c : N) : option N :=
  if is_digit c then Some (c - 48)
  else if (97 <=? c) && (c <=? 102) then Some (c - 87) else None.
Fixpoint hex_dec (s : bytes) : option bytes :=
  match s with
  | [] => Some []
  | a :: b :: r => match hex_val a, hex_val b, hex_dec r with
                   | Some x, Some y, Some t => Some (x * 16 + y :: t)
                   | _, _, _ => None
                   end
  | _ => None
  end.
