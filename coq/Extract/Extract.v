(** Extraction of the executable model for the correspondence driver.
    Only the ExtrOcamlBasic directives are used (bool, option, unit, list, prod, sumbool, sumor as
    OCaml types; andb/orb inlined); N, positive and nat stay as extracted datatypes. *)
Require Import CF.Model.Harness.
Require Extraction.
Require Import ExtrOcamlBasic.
Extraction Language OCaml.
Extraction "model.ml" run_case.
