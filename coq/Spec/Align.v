(** Specification layer: what a chain file *means*, independently of how the library computes it.

    A base is (contig, strand, forward 0-based index).  The file's alignment relation is stated in the
    file's own coordinates: block k of a chain starts at local positions (T_k, Q_k) - the header starts
    plus the running sums of size+dt / size+dq - and aligns its i-th reference base to its i-th query
    base for i < size_k; a local position l on a minus strand is forward position size-1-l (the file's
    reverse-complement numbering). *)
Require Import CF.Model.Base CF.Model.Omics CF.Model.Pair CF.Model.Records CF.Model.Sections.

Record base := { bctg : contig; bstr : strand; bidx : N }.

(** forward index of the base at file-local position [l] *)
Definition fwd (s : strand) (size l : N) : N := match s with Pos => l | Neg => size - 1 - l end.

(** blocks of a chain in file-local coordinates: (T_k, Q_k, size_k) *)
Fixpoint blocks_local (t q : N) (rs : list drec) : list (N * N * N) :=
  match rs with
  | [] => []
  | c :: r =>
    let gt := match ddt c with Some g => g | None => 0 end in
    let gq := match ddq c with Some g => g | None => 0 end in
    (t, q, dsize c) :: blocks_local (t + dsize c + gt) (q + dsize c + gq) r
  end.
Definition sec_blocks (sec : section) : list (N * N * N) :=
  blocks_local (sstart (href (shdr sec))) (sstart (hqry (shdr sec))) (sdata sec).

(** does block (T,Q,n) of a chain with header h align reference base rb to query base qb?
    i.e. exists i < n, rb = (tname, tstrand, fwd (T+i)) and qb = (qname, qstrand, fwd (Q+i)) *)
Definition local_off (s : strand) (size T n x : N) : option N :=
  match s with
  | Pos => if (T <=? x) && (x <? T + n) then Some (x - T) else None
  | Neg => if (x <? size) && (T <=? size - 1 - x) && (size - 1 - x <? T + n) then Some (size - 1 - x - T) else None
  end.
Definition block_maps (h : header) (blk : N * N * N) (rb qb : base) : bool :=
  let '(T, Q, n) := blk in
  contig_eqb (sname (href h)) (bctg rb) && strand_eqb (sstrand (href h)) (bstr rb) &&
  contig_eqb (sname (hqry h)) (bctg qb) && strand_eqb (sstrand (hqry h)) (bstr qb) &&
  match local_off (sstrand (href h)) (ssize (href h)) T n (bidx rb) with
  | Some i => fwd (sstrand (hqry h)) (ssize (hqry h)) (Q + i) =? bidx qb
  | None => false
  end.

(** the bases of an interval of the library: forward index of its k-th base in strand direction *)
Definition nth_base (i : ival) (k : N) : N := match istr i with Pos => ia i + k | Neg => ia i - 1 - k end.
(** the k < len i with nth_base i k = x, if any *)
Definition base_off (i : ival) (x : N) : option N :=
  match istr i with
  | Pos => if (ia i <=? x) && (x <? ib i) then Some (x - ia i) else None
  | Neg => if (ib i <=? x) && (x <? ia i) then Some (ia i - 1 - x) else None
  end.
Definition base_in (i : ival) (b : base) : bool :=
  contig_eqb (ictg i) (bctg b) && strand_eqb (istr i) (bstr b) &&
  match base_off i (bidx b) with Some _ => true | None => false end.

(** does a returned pair map rb to qb (its i-th reference base to its i-th query base)? *)
Definition pair_maps (p : pair) (rb qb : base) : bool :=
  contig_eqb (ictg (pref p)) (bctg rb) && strand_eqb (istr (pref p)) (bstr rb) &&
  contig_eqb (ictg (pqry p)) (bctg qb) && strand_eqb (istr (pqry p)) (bstr qb) &&
  match base_off (pref p) (bidx rb) with
  | Some k => nth_base (pqry p) k =? bidx qb
  | None => false
  end.

Definition count {A} (f : A -> bool) (l : list A) : nat := length (filter f l).

(** how many times a result maps rb to qb *)
Definition mult_res (ps : list pair) (rb qb : base) : nat := count (fun p => pair_maps p rb qb) ps.
(** how many blocks of the file align rb to qb, for rb inside the requested interval *)
Fixpoint mult_file (f : list section) (rb qb : base) : nat :=
  match f with
  | [] => 0
  | sec :: r => (count (fun blk => block_maps (shdr sec) blk rb qb) (sec_blocks sec) + mult_file r rb qb)%nat
  end.
Definition mult_spec (f : list section) (iv : ival) (rb qb : base) : nat :=
  if base_in iv rb then mult_file f rb qb else 0%nat.

Definition opt_list {A} (o : option (list A)) : list A := match o with Some l => l | None => [] end.
