(** C02 — Liftover completeness and exact clipping; 'no mapping' iff nothing aligns.
    Pinned statements only.  [mult_res ps rb qb] counts how many returned pairs map rb to qb;
    [mult_spec f iv rb qb] counts how many blocks of the file align rb to qb when rb lies in iv (0 otherwise);
    see Spec/Align.v. *)
Require Import CF.Proofs.Tac CF.Model.Omics CF.Model.Pair CF.Model.Records CF.Model.Sections CF.Model.Machine
  CF.Proofs.OmicsFacts CF.Proofs.RecordsFacts CF.Spec.Align CF.Proofs.MachineFacts CF.Proofs.LiftProps CF.Proofs.Examples.

(** For every file a machine is built from and every interval (empty ones and files with zero-length
    blocks included) liftover returns a value (no panic) and the returned pairs contain exactly the bases of
    the interval that some block on the same contig and strand aligns, once per aligning block: nothing outside
    the interval, nothing dropped, nothing duplicated. *)
Theorem C02_multiset : forall f m iv, Forall sec_ok f -> build_secs f = Val (Ok m) -> wf_ival iv ->
  exists r, liftover m iv = Val r /\ forall rb qb, mult_res (opt_list r) rb qb = mult_spec f iv rb qb.
Proof. exact liftover_multiset. Qed.
Print Assumptions C02_multiset.

(** For non-empty intervals the machine answers 'no mapping' exactly when that set is empty (unknown
    contigs and the opposite strand are instances: no block is on that contig and strand). *)
Theorem C02_none_iff : forall f m iv, Forall sec_ok f -> build_secs f = Val (Ok m) -> wf_ival iv -> 0 < len iv ->
  (liftover m iv = Val None <-> forall rb qb, mult_spec f iv rb qb = 0%nat).
Proof. exact liftover_none_iff. Qed.
Print Assumptions C02_none_iff.

Example C02_nonvacuous : exists m, build_secs ex_file = Val (Ok m) /\
  liftover m {| ictg := [97]; istr := Pos; ia := 6; ib := 9 |} = Val None /\
  liftover m {| ictg := [122]; istr := Pos; ia := 0; ib := 9 |} = Val None /\
  mult_spec ex_file ex_iv {| bctg := [97]; bstr := Pos; bidx := 9 |} {| bctg := [98]; bstr := Neg; bidx := 23 |} = 1%nat.
Proof. eexists. split; [vm_compute; reflexivity|]. vm_compute. repeat split; reflexivity. Qed.
