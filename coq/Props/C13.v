(** C13 — Print/parse round trip for records, lines and whole files.  Pinned statements only;
    proofs in Proofs/TextFacts.v and Proofs/FileFacts.v. *)
Require Import CF.Proofs.Tac CF.Model.Text CF.Model.Records CF.Model.Reader CF.Model.Sections
  CF.Proofs.RecordsFacts CF.Proofs.TextFacts CF.Proofs.SectionsFacts CF.Proofs.FileFacts.

Theorem C13_u64 : forall n, n <= U64MAX -> parse_u64 (print_u64 n) = Some n.
Proof. exact parse_print_u64. Qed.
Print Assumptions C13_u64.

(** Every header the parser accepts (any contig names without spaces, non-canonical number spellings, both
    strands) prints to text that parses back to an equal record; hence that text is canonical: printing the
    re-parsed record returns it byte-identically. *)
Theorem C13_header : forall s h, parse_header s = Ok h -> parse_header (print_header h) = Ok h.
Proof. exact header_roundtrip. Qed.
Print Assumptions C13_header.

(** Canonical text (what printing produces) prints back byte-identically after parsing. *)
Theorem C13_canonical_bytes : forall s h, parse_header s = Ok h ->
  exists h', parse_header (print_header h) = Ok h' /\ print_header h' = print_header h.
Proof. intros s h H. exists h. split; [eapply header_roundtrip; eauto|reflexivity]. Qed.
Print Assumptions C13_canonical_bytes.

Theorem C13_data : forall s d, parse_drec s = Ok d -> exists p, print_drec d = Val p /\ parse_drec p = Ok d.
Proof. exact drec_roundtrip. Qed.
Print Assumptions C13_data.

(** Lines (empty, header, data): which kind prints which columns, and that a printed data line is never
    taken for a header, are inside the statement. *)
Theorem C13_line : forall s l, parse_line s = Ok l -> exists p, print_line l = Val p /\ parse_line p = Ok l.
Proof. exact line_roundtrip. Qed.
Print Assumptions C13_line.

(** Whole files: re-serialising sections (header line, data lines, blank line) gives lines that parse to
    equal sections, for every list of sections of the shape the iterator yields ... *)
Theorem C13_file : forall f, Forall sec_proper f -> forall rs idx, texts rs = file_lines f -> all_ok rs ->
  spec_sections None idx rs = map Ok f.
Proof. exact file_roundtrip. Qed.
Print Assumptions C13_file.

(** ... which every section of every accepted file is (so the machine built from the re-serialised file
    is the machine of the same sections: C03_grammatical). *)
Theorem C13_accepted_sections_proper : forall rs idx,
  Forall (fun it => match it with Ok s => sec_proper s | Err _ => True end) (spec_sections None idx rs).
Proof. intros rs idx. apply spec_sections_proper. exact I. Qed.
Print Assumptions C13_accepted_sections_proper.

Example C13_nonvacuous :
  parse_header [99;104;97;105;110;32;43;48;55;32;97;32;48;52;32;43;32;48;32;52;32;98;32;53;32;45;32;48;32;53;32;49]
  = Ok {| hscore := 7; href := {| sname := [97]; ssize := 4; sstrand := Pos; sstart := 0; send := 4 |};
          hqry := {| sname := [98]; ssize := 5; sstrand := Neg; sstart := 0; send := 5 |}; hid := 1 |}.
Proof. vm_compute. reflexivity. Qed.
