(** C01 — Liftover soundness: every returned base pairing is a true chain alignment.
    Pinned statements only; proofs in Proofs/{AlignFacts,MachineFacts,LiftProps,BuildFacts}.v.

    Vocabulary (Spec/Align.v): a base is (contig, strand, forward 0-based index).  [sec_blocks sec] lists
    the blocks (T_k, Q_k, size_k) of a chain in the file's own coordinates (header start + running sums of
    size+dt / size+dq); [block_maps h (T,Q,n) rb qb] says that block aligns rb to qb, i.e. (C01_block_meaning)
    rb = (tName, tStrand, fwd(T+i)) and qb = (qName, qStrand, fwd(Q+i)) for some i < n, where
    fwd Pos size l = l and fwd Neg size l = size-1-l.  [rbase p i]/[qbase p i] are the i-th reference/query
    base of a returned pair in strand direction.  [sec_ok] = the header invariants every parsed header has. *)
Require Import CF.Proofs.Tac CF.Model.Omics CF.Model.Pair CF.Model.Records CF.Model.Reader CF.Model.Sections CF.Model.Machine
  CF.Proofs.OmicsFacts CF.Proofs.PairFacts CF.Proofs.RecordsFacts CF.Proofs.SectionsFacts CF.Spec.Align CF.Proofs.MachineFacts
  CF.Proofs.LiftProps CF.Proofs.BuildFacts CF.Proofs.EndToEnd CF.Proofs.Examples.

(** For every file (any number of chains, blocks, gaps, strands, overlapping chains, coordinates up to
    u64::MAX) from which a machine is built and every interval: each returned pair is contiguous and
    equal-length ([wf_pair]) and its i-th reference base is aligned by some block of some chain of the file
    to its i-th query base. *)
Theorem C01_soundness : forall f m iv ps, Forall sec_ok f -> build_secs f = Val (Ok m) -> wf_ival iv ->
  liftover m iv = Val (Some ps) ->
  Forall (fun p => wf_pair p /\
            forall i, i < len (pref p) ->
              exists sec blk, In sec f /\ In blk (sec_blocks sec) /\ block_maps (shdr sec) blk (rbase p i) (qbase p i) = true) ps.
Proof. exact liftover_sound. Qed.
Print Assumptions C01_soundness.

Theorem C01_block_meaning : forall h T Q n rb qb, T + n <= ssize (href h) ->
  (block_maps h (T, Q, n) rb qb = true <->
   bctg rb = sname (href h) /\ bstr rb = sstrand (href h) /\ bctg qb = sname (hqry h) /\ bstr qb = sstrand (hqry h) /\
   exists i, i < n /\ bidx rb = fwd (sstrand (href h)) (ssize (href h)) (T + i) /\
                    bidx qb = fwd (sstrand (hqry h)) (ssize (hqry h)) (Q + i)).
Proof. exact block_maps_iff. Qed.
Print Assumptions C01_block_meaning.

(** The machine built from a stream of line reads is the machine of the sections the grammar parses from
    it, all of which have well-formed headers and add up (so the theorem above applies to every machine the
    library can build). *)
Theorem C01_from_reads : forall rs m, build_reads rs = Val (Ok m) ->
  exists f, spec_sections None 0 rs = map Ok f /\ Forall sec_ok f /\ build_secs f = Val (Ok m) /\ Forall sums_ok f.
Proof. exact build_reads_ok_inv. Qed.
Print Assumptions C01_from_reads.

(** The two composed, with no intermediate notion left: for every source [s] — bytes under any schedule of chunks and
    interrupts — from which the library builds a machine [m], and every interval, there is a list of sections [f], namely what the
    line grammar parses from the reads of [s], such that everything [liftover m iv] returns is an alignment of a block of [f]. *)
Theorem C01_end_to_end : forall s m iv, build s = Val (Ok m) -> wf_ival iv ->
  exists f r, spec_sections None 0 (raw_reads s) = map Ok f /\ Forall sec_ok f /\ Forall sums_ok f /\
    liftover m iv = Val r /\
    (forall rb qb, mult_res (opt_list r) rb qb = mult_spec f iv rb qb) /\
    Forall (fun p => wf_pair p /\
              forall i, i < len (pref p) ->
                exists sec blk, In sec f /\ In blk (sec_blocks sec) /\ block_maps (shdr sec) blk (rbase p i) (qbase p i) = true)
           (opt_list r).
Proof. exact end_to_end. Qed.
Print Assumptions C01_end_to_end.

Example C01_nonvacuous : exists m,
  build_secs ex_file = Val (Ok m) /\ wf_ival ex_iv /\
  liftover m ex_iv = Val (Some [ {| pref := {| ictg := [97]; istr := Pos; ia := 4; ib := 6 |};
                                   pqry := {| ictg := [98]; istr := Neg; ia := 28; ib := 26 |} |};
                                {| pref := {| ictg := [97]; istr := Pos; ia := 9; ib := 11 |};
                                   pqry := {| ictg := [98]; istr := Neg; ia := 24; ib := 22 |} |} ]).
Proof. eexists. split; [vm_compute; reflexivity|]. split; [unfold wf_ival; cbn; lia|]. vm_compute. reflexivity. Qed.
