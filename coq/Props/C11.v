(** C11 — Chains act independently; results are deterministic and ordered.  Pinned statements only. *)
From Coq Require Import Sorting.Permutation Sorting.Sorted.
Require Import CF.Proofs.Tac CF.Model.Omics CF.Model.Pair CF.Model.Records CF.Model.Sections CF.Model.Lapper CF.Model.Machine
  CF.Proofs.OmicsFacts CF.Proofs.RecordsFacts CF.Spec.Align CF.Proofs.AlignFacts CF.Proofs.MachineFacts CF.Proofs.LiftProps CF.Proofs.Examples.

(** The result over a file is the multiset union of the results over any partition of its chains into two
    files (hence over each chain alone). *)
Theorem C11_union : forall f1 f2 m m1 m2 iv, Forall sec_ok f1 -> Forall sec_ok f2 ->
  build_secs (f1 ++ f2) = Val (Ok m) -> build_secs f1 = Val (Ok m1) -> build_secs f2 = Val (Ok m2) -> wf_ival iv ->
  exists r r1 r2, liftover m iv = Val r /\ liftover m1 iv = Val r1 /\ liftover m2 iv = Val r2 /\
    forall rb qb, mult_res (opt_list r) rb qb = (mult_res (opt_list r1) rb qb + mult_res (opt_list r2) rb qb)%nat.
Proof. exact liftover_union. Qed.
Print Assumptions C11_union.

(** Reordering the chains never changes the base pairings. *)
Theorem C11_permutation : forall f f' m m' iv, Forall sec_ok f -> Permutation f f' ->
  build_secs f = Val (Ok m) -> build_secs f' = Val (Ok m') -> wf_ival iv ->
  exists r r', liftover m iv = Val r /\ liftover m' iv = Val r' /\
    forall rb qb, mult_res (opt_list r) rb qb = mult_res (opt_list r') rb qb.
Proof. exact liftover_perm. Qed.
Print Assumptions C11_permutation.

(** The pairs of one answer are ordered by non-decreasing forward start of their reference interval. *)
Theorem C11_sorted : forall f m iv ps, Forall sec_ok f -> build_secs f = Val (Ok m) -> wf_ival iv ->
  liftover m iv = Val (Some ps) -> StronglySorted (fun p q => fwd_lo (pref p) <= fwd_lo (pref q)) ps.
Proof. exact liftover_sorted. Qed.
Print Assumptions C11_sorted.

(** The only nondeterminism in the implementation is the hash-map iteration order in which the per-contig
    vectors are moved into the final map; any order gives the same answers, because the keys are distinct. *)
Theorem C11_order_free : forall (inner inner' : list (contig * Lapper.lapper pair)) rd qd iv, NoDup (map fst inner) -> Permutation inner inner' ->
  liftover {| minner := inner; mref := rd; mqry := qd |} iv = liftover {| minner := inner'; mref := rd; mqry := qd |} iv.
Proof. exact liftover_order_free. Qed.
Print Assumptions C11_order_free.
Theorem C11_keys_distinct : forall f m, Forall sec_ok f -> build_secs f = Val (Ok m) -> NoDup (map fst (minner m)).
Proof. exact build_keys_nodup. Qed.
Print Assumptions C11_keys_distinct.

(** Determinism: the model's answer is a function of the parsed file and the interval; the only
    nondeterminism in the implementation (hash-map iteration order when the per-contig vectors are moved into
    the final map) cannot influence a lookup by key, and is exercised by the correspondence check across
    builds and processes. *)
Example C11_nonvacuous :
  match build_secs ex_file, build_secs (firstn 1 ex_file), build_secs (skipn 1 ex_file) with
  | Val (Ok _), Val (Ok _), Val (Ok _) => True
  | _, _, _ => False
  end.
Proof. vm_compute. exact I. Qed.
