(** C17 — One cursor: every reading method consumes the stream strictly line by line.  Pinned statements only. *)
Require Import CF.Proofs.Tac CF.Model.Records CF.Model.Reader CF.Model.Sections CF.Model.Ops CF.Proofs.OpsFacts CF.Proofs.ReaderFacts CF.Proofs.ChunkFacts CF.Proofs.ByteFacts.

(** For every history of reader operations (raw reads, parsed reads, lines().next(), sections().next() on a
    continued or fresh iterator) the reads consumed by the operations, in order, followed by what is left, are
    exactly the stream: every input line is observed exactly once, in order, by exactly one operation. *)
Theorem C17_cursor : forall ops s tr s', run_ops ops s = (tr, s') -> concat (map snd tr) ++ oreads s' = oreads s.
Proof. exact run_ops_cursor. Qed.
Print Assumptions C17_cursor.

(** The single-line methods advance by exactly one line. *)
Theorem C17_single_line : forall o s ob used s', o = OpRaw \/ o = OpParsed \/ o = OpLines -> op_step o s = (ob, used, s') ->
  match oreads s with [] => used = [] | r :: _ => used = [r] end.
Proof. exact op_step_single. Qed.
Print Assumptions C17_single_line.

(** (The iterator is always between sections when a call starts: C06_sections.)  Yielding a section consumes nothing beyond that section's terminating line (no look-ahead): the last
    line consumed is the terminating record, which is the section's last record. *)
Theorem C17_no_lookahead : forall ln rs sec it' rest,
  sections_next {| sst := InBetween; sln := ln |} rs = Val (Some (Ok sec), it', rest) ->
  exists pre0 rl d ds, rs = pre0 ++ rl :: rest /\ classify rl = RData d /\ dterm d = true /\ sdata sec = ds ++ [d].
Proof. exact sections_no_lookahead. Qed.
Print Assumptions C17_no_lookahead.

(** The same at the level of bytes: the raw reads partition the byte string.  The byte counts the reads report ([consumed]: also
    for a read refused as invalid UTF-8) add up to the length of the input, for every chunking and any number of retried
    interrupts; and the first k reads consumed exactly the first k raw lines ([chunks b] cuts [b] after every LF), so read k starts
    at the byte where read k-1 ended - nothing is skipped, nothing is read twice. *)
Theorem C17_bytes_partition : forall evs, no_fail evs ->
  sumN (map consumed (raw_reads {| pending := []; future := evs |})) = N.of_nat (length (flat evs)).
Proof. exact raw_reads_consume_all_schedule. Qed.
Print Assumptions C17_bytes_partition.

Theorem C17_byte_positions : forall b k,
  sumN (map consumed (firstn k (raw_reads (src_of_bytes b)))) = N.of_nat (length (concat (firstn k (chunks b)))) /\ concat (chunks b) = b.
Proof. intros b k. split; [exact (raw_reads_positions b k)|exact (chunks_concat b)]. Qed.
Print Assumptions C17_byte_positions.

Example C17_bytes_nonvacuous :
  map consumed (raw_reads {| pending := []; future := [Chunk [52; 13]; Interrupted; Chunk [10; 255; 10; 53]] |}) = [3; 2; 1].
Proof. vm_compute. reflexivity. Qed.
