(** C18 — Machine is shareable across threads; concurrent use equals sequential use (partial).
    What Coq carries: for read-only clients of one shared machine every schedule yields, per thread,
    exactly the sequential answers.  The premise - a liftover step writes nothing shared - is what Rust's
    [&self] + auto [Sync] + absence of interior mutability and of unsafe code give; those are checked on the
    code itself by the correspondence side of this check (compile-time Send+Sync obligations, the crate
    compiled with unsafe_code forbidden, a token audit, and real threads compared with the model). *)
Require Import CF.Proofs.Tac CF.Model.Omics CF.Model.Pair CF.Model.Machine CF.Model.Conc CF.Proofs.ConcFacts.
From Coq Require Import PeanoNat.

Theorem C18_schedule_independent : forall (M S : Type) (step : M -> S -> S) m sched (ts : list S) t,
  nth_error (run step m sched ts) t = option_map (iter (count_occ Nat.eq_dec sched t) (step m)) (nth_error ts t).
Proof. exact run_independent. Qed.
Print Assumptions C18_schedule_independent.

Theorem C18_concurrent_equals_sequential : forall m sched (cs : list client) t qs,
  nth_error cs t = Some {| todo := qs; answers := [] |} -> (length qs <= count_occ Nat.eq_dec sched t)%nat ->
  nth_error (run client_step m sched cs) t = Some {| todo := []; answers := map (liftover m) qs |}.
Proof. exact concurrent_equals_sequential. Qed.
Print Assumptions C18_concurrent_equals_sequential.
