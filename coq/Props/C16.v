(** C16 — Chromosome dictionaries mirror the headers; returned coordinates stay in bounds.  Pinned statements only. *)
Require Import CF.Proofs.Tac CF.Model.Omics CF.Model.Pair CF.Model.Records CF.Model.Sections CF.Model.Machine
  CF.Proofs.OmicsFacts CF.Proofs.RecordsFacts CF.Spec.Align CF.Proofs.AlignFacts CF.Proofs.MachineFacts CF.Proofs.LiftProps CF.Proofs.Examples.

(** A built machine reports exactly the reference contigs and exactly the query contigs named in the
    headers, each with its declared size, never swapped between the two sides. *)
Theorem C16_dicts : forall f m, Forall sec_ok f -> build_secs f = Val (Ok m) ->
  (forall k v, dict_get (mref m) k = Some v <-> exists sec, In sec f /\ sname (href (shdr sec)) = k /\ ssize (href (shdr sec)) = v) /\
  (forall k v, dict_get (mqry m) k = Some v <-> exists sec, In sec f /\ sname (hqry (shdr sec)) = k /\ ssize (hqry (shdr sec)) = v).
Proof. exact build_dicts. Qed.
Print Assumptions C16_dicts.

(** A file that declares one contig with two different sizes (on one side) never yields a machine:
    whenever a machine is built the declared sizes are consistent. *)
Theorem C16_conflict : forall f m, Forall sec_ok f -> build_secs f = Val (Ok m) ->
  forall s1 s2, In s1 f -> In s2 f ->
    (sname (href (shdr s1)) = sname (href (shdr s2)) -> ssize (href (shdr s1)) = ssize (href (shdr s2))) /\
    (sname (hqry (shdr s1)) = sname (hqry (shdr s2)) -> ssize (hqry (shdr s1)) = ssize (hqry (shdr s2))).
Proof. exact build_sizes_consistent. Qed.
Print Assumptions C16_conflict.

(** Every coordinate of every returned pair lies between 0 and the size the machine reports for its contig
    ([fwd_hi] is the larger end; positions are naturals, so 0 <= is by type). *)
Theorem C16_bounds : forall f m iv ps, Forall sec_ok f -> build_secs f = Val (Ok m) -> wf_ival iv ->
  liftover m iv = Val (Some ps) ->
  Forall (fun p => exists sec, In sec f /\
     ictg (pref p) = sname (href (shdr sec)) /\ fwd_hi (pref p) <= ssize (href (shdr sec)) /\
     dict_get (mref m) (ictg (pref p)) = Some (ssize (href (shdr sec))) /\
     ictg (pqry p) = sname (hqry (shdr sec)) /\ fwd_hi (pqry p) <= ssize (hqry (shdr sec)) /\
     dict_get (mqry m) (ictg (pqry p)) = Some (ssize (hqry (shdr sec)))) ps.
Proof. exact liftover_bounds. Qed.
Print Assumptions C16_bounds.

Example C16_nonvacuous : exists m, build_secs ex_file = Val (Ok m) /\ mref m = [([97], 20)] /\ mqry m = [([98], 30); ([99], 9)].
Proof. eexists. split; [vm_compute; reflexivity|]. split; reflexivity. Qed.
