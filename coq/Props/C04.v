(** C04 — Step-through tiles a chain exactly as its records and header dictate.
    Pinned statements only; proofs in Proofs/StepFacts.v.

    [seq_ival s] is the header interval of a sequence in the library's coordinates (start -> end on '+',
    size-start -> size-end on '-'); [sub R a b] the sub-interval of R between strand-directed offsets a, b;
    [tot ddt rs] = sum over rs of size+dt, [tot ddq rs] = sum of size+dq; [spec_run R Q 0 0 rs] the
    specification (Proofs/StepFacts.v): a six-line recursive function over offsets. *)
Require Import CF.Proofs.Tac CF.Model.Omics CF.Model.Pair CF.Model.Records CF.Model.Sections CF.Model.StepThrough
  CF.Proofs.OmicsFacts CF.Proofs.RecordsFacts CF.Proofs.StepFacts.

(** Draining the step-through of any section with a well-formed header (any record list, any strands,
    sizes up to u64::MAX) terminates within records+2 calls and yields exactly [spec_run]. *)
Theorem C04_drain : forall sec fuel, hdr_ok (shdr sec) -> (length (sdata sec) + 1 < fuel)%nat ->
  exists s0, st_new sec = Ok s0 /\
    st_drain fuel s0 = (spec_run (seq_ival (href (shdr sec))) (seq_ival (hqry (shdr sec))) 0 0 (sdata sec), true).
Proof. exact st_section_closed. Qed.
Print Assumptions C04_drain.

(** The k-th yielded pair accompanies the k-th record and is in closed form: it begins at offset
    sum_{j<k}(size_j+dt_j) of the reference header interval (so the first begins at the header start) and
    sum_{j<k}(size_j+dq_j) of the query header interval, and spans exactly size_k on both sides, on the
    header's contigs and strands; consecutive pairs are therefore separated by exactly dt_k / dq_k. *)
Theorem C04_items : forall R Q rs k pr c,
  nth_error (spec_run R Q 0 0 rs) k = Some (Ok (pr, c)) ->
  nth_error rs k = Some c /\
  pr = {| pref := sub R (0 + tot ddt (firstn k rs)) (0 + tot ddt (firstn k rs) + dsize c);
          pqry := sub Q (0 + tot ddq (firstn k rs)) (0 + tot ddq (firstn k rs) + dsize c) |}.
Proof. intros R Q rs. exact (spec_run_nth R Q rs 0 0). Qed.
Print Assumptions C04_items.

(** It completes without error exactly when the records add up to both header extents
    (then the last pair ends at the header's end, by C04_items and the sums). *)
Theorem C04_complete_iff : forall R Q, wf_ival R -> wf_ival Q -> in_u64 R -> in_u64 Q -> forall rs,
  (no_err (spec_run R Q 0 0 rs) = true <-> 0 + tot ddt rs = len R /\ 0 + tot ddq rs = len Q).
Proof. intros R Q HR HQ UR UQ rs. apply complete_iff; auto; lia. Qed.
Print Assumptions C04_complete_iff.

(** Otherwise the run is a list of correct pairs (C04_items applies to each) followed by exactly one
    error, which is last. *)
Theorem C04_prefix_then_error : forall R Q rs,
  exists oks tail, spec_run R Q 0 0 rs = map Ok oks ++ tail /\ (tail = [] \/ exists e, tail = [Err e]).
Proof. intros R Q rs. exact (spec_run_shape R Q rs 0 0). Qed.
Print Assumptions C04_prefix_then_error.

(** In an error-free run there is one item per record, in order. *)
Theorem C04_one_per_record : forall R Q rs, no_err (spec_run R Q 0 0 rs) = true ->
  map (fun it => match it with Ok (_, c) => Some c | Err _ => None end) (spec_run R Q 0 0 rs) = map Some rs.
Proof. intros R Q rs. exact (spec_run_records R Q rs 0 0). Qed.
Print Assumptions C04_one_per_record.

(** Non-vacuity: a minus/minus section at the top of the u64 range with a gap. *)
Example C04_nonvacuous :
  let h := {| hscore := 0;
              href := {| sname := [97]; ssize := U64MAX; sstrand := Neg; sstart := 0; send := 7 |};
              hqry := {| sname := [98]; ssize := 9; sstrand := Pos; sstart := 1; send := 9 |}; hid := 1 |} in
  let sec := {| shdr := h; sdata := [ {| dsize := 3; ddt := Some 1; ddq := Some 2; dterm := false |};
                                      {| dsize := 3; ddt := None; ddq := None; dterm := true |} ] |} in
  hdr_ok h /\ exists s0, st_new sec = Ok s0 /\ fst (st_drain 4 s0) =
    [ Ok ({| pref := {| ictg := [97]; istr := Neg; ia := U64MAX; ib := U64MAX - 3 |};
             pqry := {| ictg := [98]; istr := Pos; ia := 1; ib := 4 |} |}, {| dsize := 3; ddt := Some 1; ddq := Some 2; dterm := false |});
      Ok ({| pref := {| ictg := [97]; istr := Neg; ia := U64MAX - 4; ib := U64MAX - 7 |};
             pqry := {| ictg := [98]; istr := Pos; ia := 6; ib := 9 |} |}, {| dsize := 3; ddt := None; ddq := None; dterm := true |}) ].
Proof.
  cbv zeta. split.
  - unfold hdr_ok, seq_ok, U64MAX; cbn. lia.
  - eexists. split; [reflexivity|]. vm_compute. reflexivity.
Qed.
