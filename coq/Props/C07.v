(** C07 — Iterators are finite and a step-through yields nothing after an error.
    Pinned statements only. *)
Require Import CF.Proofs.Tac CF.Model.Omics CF.Model.Pair CF.Model.Records CF.Model.Reader CF.Model.Sections
  CF.Model.StepThrough CF.Proofs.OmicsFacts CF.Proofs.RecordsFacts CF.Proofs.StepFacts CF.Proofs.SectionsFacts CF.Proofs.ReaderFacts CF.Proofs.ChunkFacts.

(** Draining the section iterator over any stream of n line reads, with any budget above n+1 calls,
    ends (returns None) after at most n items - even when the caller keeps going after errors. *)
Theorem C07_sections_finite : forall rs ln fuel, (length rs + 1 < fuel)%nat ->
  exists items, sdrain fuel {| sst := InBetween; sln := ln |} rs = Val (items, true) /\ (length items <= length rs)%nat.
Proof. exact sdrain_finite. Qed.
Print Assumptions C07_sections_finite.

(** The stream of line reads over a byte string (what lines() yields, one item each, and what sections()
    consumes) has at most one element per input line: LF count + 1.  With the theorem above: draining the section
    iterator over any byte string yields at most lines items, well within the property's lines + 1. *)
Theorem C07_lines_finite : forall b, (length (raw_reads (src_of_bytes b)) <= count_lf b + 1)%nat.
Proof. exact raw_reads_length. Qed.
Print Assumptions C07_lines_finite.

(** Draining the step-through of any section (well-formed header, arbitrary records) ends after at
    most records+1 items. *)
Theorem C07_step_finite : forall sec fuel, hdr_ok (shdr sec) -> (length (sdata sec) + 1 < fuel)%nat ->
  exists s0 items, st_new sec = Ok s0 /\ st_drain fuel s0 = (items, true) /\ (length items <= length (sdata sec) + 1)%nat.
Proof.
  intros sec fuel Hh Hf. destruct (st_section_closed sec fuel Hh Hf) as (s0 & E1 & E2).
  exists s0. eexists. split; [exact E1|]. split; [exact E2|]. apply spec_run_length.
Qed.
Print Assumptions C07_step_finite.

(** Once a step-through has reported an error, every later call yields nothing. *)
Theorem C07_step_fused : forall s e s', st_next s = (Some (Err e), s') -> st_next s' = (None, s').
Proof. exact st_next_fused. Qed.
Print Assumptions C07_step_fused.

(** Findings F1 and F5 (fixed in /repo): before the repairs both drains were unbounded. *)
Example C07_sections_old_refuted :
  let hdr := [99;104;97;105;110;32;48;32;97;32;52;32;43;32;48;32;52;32;98;32;53;32;45;32;48;32;53;32;49] in
  let rs := [ROk 30 hdr; ROk 6 [51;9;48;9;49]] in
  (* 40 calls, 40 items, still not ended: the state stays Reading at end of input *)
  (fix drain (fuel : nat) (it : siter) (rs : list rawres) : nat :=
     match fuel with O => O | S f =>
       match sloop_old None (sst it) (sln it) rs with
       | Val (Some _, it', rs') => S (drain f it' rs') | _ => O end end) 40%nat sections_new rs = 40%nat.
Proof. vm_compute. reflexivity. Qed.
Example C07_step_old_refuted :
  let h := {| hscore := 0;
              href := {| sname := [97]; ssize := 10; sstrand := Pos; sstart := 0; send := 10 |};
              hqry := {| sname := [98]; ssize := 10; sstrand := Neg; sstart := 0; send := 10 |}; hid := 1 |} in
  let sec := {| shdr := h; sdata := [ {| dsize := 3; ddt := None; ddq := None; dterm := true |} ] |} in
  exists s0, st_new sec = Ok s0 /\ length (fst (st_drain_old 40 s0)) = 40%nat /\ snd (st_drain_old 40 s0) = false.
Proof. cbv zeta. eexists. split; [reflexivity|]. vm_compute. split; reflexivity. Qed.
