(** C09 — Lifting an interval equals lifting its parts, down to single bases.  Pinned statements only. *)
Require Import CF.Proofs.Tac CF.Model.Omics CF.Model.Pair CF.Model.Records CF.Model.Sections CF.Model.Machine
  CF.Proofs.OmicsFacts CF.Proofs.RecordsFacts CF.Spec.Align CF.Proofs.AlignFacts CF.Proofs.MachineFacts CF.Proofs.LiftProps CF.Proofs.Examples.

(** For every file, interval and cut position between its ends ([part1]/[part2] are the two parts in strand
    order): the base pairings of the whole are the multiset union of those of the parts.  Iterating gives the
    union over single bases. *)
Theorem C09_split : forall f m iv c, Forall sec_ok f -> build_secs f = Val (Ok m) -> wf_ival iv -> cut_ok iv c ->
  exists r r1 r2, liftover m iv = Val r /\ liftover m (part1 iv c) = Val r1 /\ liftover m (part2 iv c) = Val r2 /\
    forall rb qb, mult_res (opt_list r) rb qb = (mult_res (opt_list r1) rb qb + mult_res (opt_list r2) rb qb)%nat.
Proof. exact liftover_split. Qed.
Print Assumptions C09_split.

(** A position maps identically whether it is asked for alone (iv' a single base) or as part of any larger
    interval: for every two intervals containing rb the pairings of rb agree. *)
Theorem C09_pointwise : forall f m iv iv', Forall sec_ok f -> build_secs f = Val (Ok m) -> wf_ival iv -> wf_ival iv' ->
  exists r r', liftover m iv = Val r /\ liftover m iv' = Val r' /\
    forall rb qb, base_in iv rb = true -> base_in iv' rb = true ->
      mult_res (opt_list r) rb qb = mult_res (opt_list r') rb qb.
Proof. exact liftover_pointwise. Qed.
Print Assumptions C09_pointwise.

(** No pair reaches outside the requested interval. *)
Theorem C09_inside : forall f m iv ps, Forall sec_ok f -> build_secs f = Val (Ok m) -> wf_ival iv ->
  liftover m iv = Val (Some ps) ->
  Forall (fun p => ictg (pref p) = ictg iv /\ istr (pref p) = istr iv /\
                   fwd_lo iv <= fwd_lo (pref p) /\ fwd_hi (pref p) <= fwd_hi iv) ps.
Proof. exact liftover_inside. Qed.
Print Assumptions C09_inside.

Example C09_nonvacuous : Forall sec_ok ex_file /\ wf_ival ex_iv /\ cut_ok ex_iv 5 /\ cut_ok ex_iv 8.
Proof. split; [exact ex_file_ok|]. unfold wf_ival, cut_ok; cbn. lia. Qed.
