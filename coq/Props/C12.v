(** C12 — Parsing is independent of line endings, blank padding and read chunking.  Pinned statements only;
    proofs in Proofs/ReaderFacts.v and Proofs/SectionsFacts.v. *)
Require Import CF.Proofs.Tac CF.Model.Text CF.Model.Records CF.Model.Reader CF.Model.Sections CF.Proofs.SectionsFacts CF.Proofs.ReaderFacts
  CF.Proofs.FileFacts CF.Proofs.EolFacts CF.Model.Machine CF.Proofs.EncFacts CF.Proofs.Examples.

(** Chunking: for every schedule of chunks (and transient interrupts) without a hard failure, the stream
    of line reads - on which every parsed line, section, error and machine depends - is the one of the flat
    bytes: 1 byte at a time, every two-piece split, splits between CR and LF are all instances. *)
Theorem C12_chunking : forall evs, no_fail evs ->
  raw_reads {| pending := []; future := evs |} = raw_reads (src_of_bytes (flat evs)).
Proof. exact raw_reads_schedule. Qed.
Print Assumptions C12_chunking.

(** A raw line read reports exactly the number of bytes it consumed, terminators included, and returns the
    line without them: the input is [l ++ rest] with [n = |l|], and [l] is the text followed by CRLF, by LF,
    or by nothing at end of input; the text contains no LF. *)
Theorem C12_raw_count : forall b n t s', read_line_raw (src_of_bytes b) = (ROk n t, s') ->
  exists l, b = l ++ pending s' /\ future s' = [] /\ n = N.of_nat (length l) /\ t = strip_eol l /\
            (l = t ++ [CR; LF] \/ (l = t ++ [LF]) \/ (l = t /\ pending s' = [])) /\ ~ In LF t.
Proof. exact raw_read_count. Qed.
Print Assumptions C12_raw_count.

(** Blank padding: a blank line before, between or after sections changes the grammar's items only in the
    line numbers quoted by blank-line errors. *)
Theorem C12_padding : forall r rest idx, classify r = RBlank ->
  map forget_ln (spec_sections None idx (r :: rest)) = map forget_ln (spec_sections None idx rest).
Proof. exact spec_sections_pad_between. Qed.
Print Assumptions C12_padding.

(** LF versus CRLF: the same text lines (no LF inside, not ending in CR, valid UTF-8) terminated either way
    are read back as the same texts, every read succeeding - so every parsed line, section, error and
    machine is the same; only the byte counts differ. *)
Theorem C12_eol : forall eol ls, eol = [LF] \/ eol = [CR; LF] -> Forall (line_ok eol) ls ->
  texts (raw_reads (src_of_bytes (join_lines eol ls))) = ls /\ all_ok (raw_reads (src_of_bytes (join_lines eol ls))).
Proof. exact raw_reads_join. Qed.
Print Assumptions C12_eol.

(** Final newline or none: the last line may lack its terminator; the same texts are read back. *)
Theorem C12_final_newline : forall eol init last, eol = [LF] \/ eol = [CR; LF] ->
  Forall (line_ok eol) init -> last <> [] -> ~ In LF last -> utf8_valid last = true ->
  texts (raw_reads (src_of_bytes (join_lines eol init ++ last))) = init ++ [last] /\
  all_ok (raw_reads (src_of_bytes (join_lines eol init ++ last))).
Proof. exact raw_reads_no_final_newline. Qed.
Print Assumptions C12_final_newline.

(** What "do not change any parsed line, section, error kind or built machine" rests on: every consumer of the reader sees only
    the texts of the line reads.  Two streams of successful reads with the same texts give the same parsed lines, the same
    grammar items (sections and the error, with its kind and payload) and the same build result. *)
Theorem C12_same_texts : forall rs1 rs2, texts rs1 = texts rs2 -> all_ok rs1 -> all_ok rs2 ->
  map classify rs1 = map classify rs2 /\ spec_sections None 0 rs1 = spec_sections None 0 rs2 /\ build_reads rs1 = build_reads rs2.
Proof. exact same_texts_same_everything. Qed.
Print Assumptions C12_same_texts.

(** LF versus CRLF, up to the machine: the same lines terminated either way give the same parsed lines, items and build result. *)
Theorem C12_eol_machine : forall ls, Forall (line_ok [LF]) ls -> Forall (line_ok [CR; LF]) ls ->
  let a := raw_reads (src_of_bytes (join_lines [LF] ls)) in
  let b := raw_reads (src_of_bytes (join_lines [CR; LF] ls)) in
  map classify a = map classify b /\ spec_sections None 0 a = spec_sections None 0 b /\
  build (src_of_bytes (join_lines [LF] ls)) = build (src_of_bytes (join_lines [CR; LF] ls)).
Proof. exact eol_invariant. Qed.
Print Assumptions C12_eol_machine.

(** Final newline or none, up to the machine. *)
Theorem C12_final_newline_machine : forall eol init last, eol = [LF] \/ eol = [CR; LF] ->
  Forall (line_ok eol) init -> line_ok eol last -> last <> [] -> utf8_valid last = true ->
  let a := raw_reads (src_of_bytes (join_lines eol init ++ last)) in
  let b := raw_reads (src_of_bytes (join_lines eol (init ++ [last]))) in
  map classify a = map classify b /\ spec_sections None 0 a = spec_sections None 0 b /\
  build (src_of_bytes (join_lines eol init ++ last)) = build (src_of_bytes (join_lines eol (init ++ [last]))).
Proof. exact final_newline_invariant. Qed.
Print Assumptions C12_final_newline_machine.

(** Blank padding after any number of complete sections ([rs1] parses to sections [f1] with no error and ends between
    sections): the items change only in quoted line numbers, and the build gives the same machine or the same refusal
    ([forget_b] forgets only the line number inside a blank-line error). *)
Theorem C12_padding_anywhere : forall rs1 f1 r rest, spec_sections None 0 rs1 = map Ok f1 -> classify r = RBlank ->
  map forget_ln (spec_sections None 0 (rs1 ++ r :: rest)) = map forget_ln (spec_sections None 0 (rs1 ++ rest)) /\
  forget_b (build_reads (rs1 ++ r :: rest)) = forget_b (build_reads (rs1 ++ rest)).
Proof. exact padding_both. Qed.
Print Assumptions C12_padding_anywhere.

Example C12_eol_example :
  map (fun r => match r with ROk _ t => t | _ => [] end) (raw_reads (src_of_bytes [52; 13; 10; 13; 10; 53; 54; 13; 10]))
  = map (fun r => match r with ROk _ t => t | _ => [] end) (raw_reads (src_of_bytes [52; 10; 10; 53; 54])).
Proof. vm_compute. reflexivity. Qed.

(** the premises of [C12_eol_machine] are met by a real file, and a machine is built from it *)
Example C12_machine_nonvacuous :
  Forall (line_ok [LF]) (file_lines ex_file) /\ Forall (line_ok [CR; LF]) (file_lines ex_file) /\
  match build (src_of_bytes (join_lines [CR; LF] (file_lines ex_file))) with Val (Ok _) => True | _ => False end.
Proof.
  split; [apply plain_lines_ok; [left; reflexivity|vm_compute; reflexivity]|].
  split; [apply plain_lines_ok; [right; reflexivity|vm_compute; reflexivity]|]. vm_compute. exact I.
Qed.
