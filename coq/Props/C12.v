(** C12 — Parsing is independent of line endings, blank padding and read chunking.  Pinned statements only;
    proofs in Proofs/ReaderFacts.v and Proofs/SectionsFacts.v. *)
Require Import CF.Proofs.Tac CF.Model.Text CF.Model.Records CF.Model.Reader CF.Model.Sections CF.Proofs.SectionsFacts CF.Proofs.ReaderFacts
  CF.Proofs.FileFacts CF.Proofs.EolFacts.

(** Chunking: for every schedule of chunks (and transient interrupts) without a hard failure, the stream
    of line reads - on which every parsed line, section, error and machine depends - is the one of the flat
    bytes: 1 byte at a time, every two-piece split, splits between CR and LF are all instances. *)
Theorem C12_chunking : forall evs, no_fail evs ->
  raw_reads {| pending := []; future := evs |} = raw_reads (src_of_bytes (flat evs)).
Proof. exact raw_reads_schedule. Qed.
Print Assumptions C12_chunking.

(** A raw line read reports exactly the number of bytes it consumed, terminators included, and returns the
    line without them: the input is [l ++ rest] with [n = |l|], and [l] is the text followed by CRLF, by LF,
    or by nothing at end of input; the text contains no LF. *)
Theorem C12_raw_count : forall b n t s', read_line_raw (src_of_bytes b) = (ROk n t, s') ->
  exists l, b = l ++ pending s' /\ future s' = [] /\ n = N.of_nat (length l) /\ t = strip_eol l /\
            (l = t ++ [CR; LF] \/ (l = t ++ [LF]) \/ (l = t /\ pending s' = [])) /\ ~ In LF t.
Proof. exact raw_read_count. Qed.
Print Assumptions C12_raw_count.

(** Blank padding: a blank line before, between or after sections changes the grammar's items only in the
    line numbers quoted by blank-line errors. *)
Theorem C12_padding : forall r rest idx, classify r = RBlank ->
  map forget_ln (spec_sections None idx (r :: rest)) = map forget_ln (spec_sections None idx rest).
Proof. exact spec_sections_pad_between. Qed.
Print Assumptions C12_padding.

(** LF versus CRLF: the same text lines (no LF inside, not ending in CR, valid UTF-8) terminated either way
    are read back as the same texts, every read succeeding - so every parsed line, section, error and
    machine is the same; only the byte counts differ. *)
Theorem C12_eol : forall eol ls, eol = [LF] \/ eol = [CR; LF] -> Forall (line_ok eol) ls ->
  texts (raw_reads (src_of_bytes (join_lines eol ls))) = ls /\ all_ok (raw_reads (src_of_bytes (join_lines eol ls))).
Proof. exact raw_reads_join. Qed.
Print Assumptions C12_eol.

(** Final newline or none: the last line may lack its terminator; the same texts are read back. *)
Theorem C12_final_newline : forall eol init last, eol = [LF] \/ eol = [CR; LF] ->
  Forall (line_ok eol) init -> last <> [] -> ~ In LF last -> utf8_valid last = true ->
  texts (raw_reads (src_of_bytes (join_lines eol init ++ last))) = init ++ [last] /\
  all_ok (raw_reads (src_of_bytes (join_lines eol init ++ last))).
Proof. exact raw_reads_no_final_newline. Qed.
Print Assumptions C12_final_newline.

Example C12_eol_example :
  map (fun r => match r with ROk _ t => t | _ => [] end) (raw_reads (src_of_bytes [52; 13; 10; 13; 10; 53; 54; 13; 10]))
  = map (fun r => match r with ROk _ t => t | _ => [] end) (raw_reads (src_of_bytes [52; 10; 10; 53; 54])).
Proof. vm_compute. reflexivity. Qed.
