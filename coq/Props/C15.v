(** C15 — Interval-pair algebra: offset-preserving liftover and intersection-exact clamp.
    Nothing here but the pinned statements; the proofs live in Proofs/PairFacts.v.

    Reading guide.  [pt i k] is the coordinate at strand-directed offset [k] from the start of
    interval [i]; [sub i k1 k2] the sub-interval between two offsets; [len] the number of bases.
    [wf_pair p]: both intervals are ordered for their strand, all four positions fit in u64, and
    the two lengths are equal (what [ContiguousIntervalPair::try_new] on u64 intervals gives). *)
Require Import CF.Proofs.Tac CF.Model.Omics CF.Model.Pair CF.Proofs.OmicsFacts CF.Proofs.PairFacts.

(** Lifting a coordinate returns the query coordinate at the same strand-directed offset exactly
    when the coordinate lies within the reference interval (both ends included: k ranges over
    0..len), and nothing otherwise. *)
Theorem C15_liftover : forall p c q, wf_pair p ->
  (pair_liftover p c = Some q <-> exists k, k <= len (pref p) /\ c = pt (pref p) k /\ q = pt (pqry p) k).
Proof. exact pair_liftover_iff. Qed.
Print Assumptions C15_liftover.

(** Clamping to any interval on the same contig and strand that meets the reference interval
    returns (never panics) the pair [clip p iv] ... *)
Theorem C15_clamp : forall p iv,
  wf_pair p -> wf_ival iv -> ictg iv = ictg (pref p) -> istr iv = istr (pref p) -> meets (pref p) iv ->
  pair_clamp p iv = Val (Ok (clip p iv)).
Proof. exact clamp_closed. Qed.
Print Assumptions C15_clamp.

(** ... whose reference side is exactly the intersection ... *)
Theorem C15_clamp_is_intersection : forall p iv,
  wf_pair p -> wf_ival iv -> istr iv = istr (pref p) -> meets (pref p) iv ->
  pref (clip p iv) = inter (pref p) iv.
Proof. exact clip_ref_is_inter. Qed.
Print Assumptions C15_clamp_is_intersection.

(** ... whose query side is the image of its two ends (same offsets [off1], [off2] on both sides, by
    definition of [clip]), and which is again a well-formed pair: equal lengths on both sides. *)
Theorem C15_clamp_equal_lengths : forall p iv,
  wf_pair p -> wf_ival iv -> istr iv = istr (pref p) -> meets (pref p) iv -> wf_pair (clip p iv).
Proof. exact clip_wf. Qed.
Print Assumptions C15_clamp_equal_lengths.

(** A different contig or strand is an error (not a panic, not a value). *)
Theorem C15_clamp_mismatch : forall p iv, ictg iv <> ictg (pref p) \/ istr iv <> istr (pref p) ->
  exists e, pair_clamp p iv = Val (Err e).
Proof. exact pair_clamp_mismatch. Qed.
Print Assumptions C15_clamp_mismatch.

(** Constructing a pair succeeds exactly for equal lengths. *)
Theorem C15_try_new : forall r q, (exists p, pair_try_new r q = Ok p) <-> len r = len q.
Proof. exact pair_try_new_iff. Qed.
Print Assumptions C15_try_new.

(** Non-vacuity: a concrete minus/plus pair at the top of the u64 range meets the hypotheses, and a
    touching zero-length clamp at the block start is inside the theorem. *)
Example C15_nonvacuous :
  let p := {| pref := {| ictg := [97]; istr := Neg; ia := U64MAX; ib := U64MAX - 10 |};
              pqry := {| ictg := [98]; istr := Pos; ia := 110; ib := 120 |} |} in
  let iv := {| ictg := [97]; istr := Neg; ia := U64MAX; ib := U64MAX |} in
  wf_pair p /\ wf_ival iv /\ meets (pref p) iv /\
  pair_clamp p iv = Val (Ok {| pref := iv; pqry := {| ictg := [98]; istr := Pos; ia := 110; ib := 110 |} |}).
Proof. cbv zeta. unfold wf_pair, wf_ival, in_u64, meets, len, count_entities, dist, U64MAX; cbn [pref pqry istr ia ib]. repeat split; try lia. Qed.

(** Finding F3 (fixed in /repo): before the repair the same call panicked. *)
Example C15_clamp_old_refuted :
  let p := {| pref := {| ictg := [97]; istr := Pos; ia := 10; ib := 20 |};
              pqry := {| ictg := [98]; istr := Pos; ia := 110; ib := 120 |} |} in
  let iv := {| ictg := [97]; istr := Pos; ia := 0; ib := 10 |} in
  pair_clamp_old p iv = Panic 3.
Proof. vm_compute. reflexivity. Qed.
