(** C14 — Record validation invariants and strand-aware sequence-to-interval conversion.
    Pinned statements only; proofs in Proofs/RecordsFacts.v. *)
Require Import CF.Proofs.Tac CF.Model.Omics CF.Model.Text CF.Model.Records CF.Proofs.OmicsFacts CF.Proofs.RecordsFacts.

(** Every accepted header line has (a '+' or '-' strand by type and) 0 <= start <= end <= size <= u64::MAX
    on both sides. *)
Theorem C14_header_inv : forall s h, parse_header s = Ok h -> hdr_ok h.
Proof. exact parse_header_ok. Qed.
Print Assumptions C14_header_inv.

(** The public record constructor accepts exactly: terminating without gaps, non-terminating with both. *)
Theorem C14_drec_try_new : forall size dt dq term d, drec_try_new size dt dq term = Ok d ->
  dsize d = size /\ ddt d = dt /\ ddq d = dq /\ dterm d = term /\
  (term = true -> dt = None /\ dq = None) /\ (term = false -> (exists x, dt = Some x) /\ (exists y, dq = Some y)).
Proof. exact drec_try_new_ok. Qed.
Print Assumptions C14_drec_try_new.
Theorem C14_drec_try_new_refuses : forall size dt dq term,
  (exists e, drec_try_new size dt dq term = Err e) <->
  (if term then dt <> None \/ dq <> None else dt = None \/ dq = None).
Proof. exact drec_try_new_err. Qed.
Print Assumptions C14_drec_try_new_refuses.

(** Every accepted data line carries gaps exactly when non-terminating, its kind fixed by the field count. *)
Theorem C14_drec_inv : forall s d, parse_drec s = Ok d ->
  drec_ok d /\ (dterm d = true <-> length (split TAB s) = 1%nat) /\ (dterm d = false <-> length (split TAB s) = 3%nat).
Proof. exact parse_drec_ok. Qed.
Print Assumptions C14_drec_inv.

(** A sequence with start <= end <= size converts to the interval of end-start bases running from start
    to end on '+' and from size-start down to size-end on '-'. *)
Theorem C14_interval : forall s, seq_ok s ->
  seq_interval s = Ok (seq_ival s) /\ wf_ival (seq_ival s) /\ in_u64 (seq_ival s) /\ len (seq_ival s) = send s - sstart s.
Proof. exact seq_interval_closed. Qed.
Print Assumptions C14_interval.

(** One whose end exceeds its size is never turned into wrapped coordinates (nor a panic: [seq_interval]
    has no panic branch): an error on '-', the literal start..end interval on '+'. *)
Theorem C14_no_wrap : forall s, ssize s < send s ->
  match sstrand s with
  | Neg => exists e, seq_interval s = Err e
  | Pos => sstart s <= send s -> seq_interval s = Ok {| ictg := sname s; istr := Pos; ia := sstart s; ib := send s |}
  end.
Proof. exact seq_interval_end_gt_size. Qed.
Print Assumptions C14_no_wrap.

(** Finding F4 (fixed in /repo): the unchecked subtraction panicked with overflow checks on and wrapped
    with them off. *)
Example C14_no_wrap_old_refuted :
  let s := {| sname := [97]; ssize := 2; sstrand := Neg; sstart := 3; send := 4 |} in
  seq_interval_old true s = Panic 20 /\
  seq_interval_old false s = Val (Ok {| ictg := [97]; istr := Neg; ia := 18446744073709551615; ib := 18446744073709551614 |}).
Proof. vm_compute. split; reflexivity. Qed.
Example C14_nonvacuous :
  exists h, parse_header ([99;104;97;105;110;32;48;32;97;32;52;32;43;32;48;32;52;32;98;32;53;32;45;32;48;32;53;32;49]) = Ok h.
Proof. eexists. vm_compute. reflexivity. Qed.
