(** C10 — Exchanging reference and query roles inverts the mapping.  Pinned statements only.
    [swap_sec] exchanges the two halves of the header and the two gap columns of every record. *)
Require Import CF.Proofs.Tac CF.Model.Omics CF.Model.Pair CF.Model.Records CF.Model.Sections CF.Model.Machine
  CF.Proofs.OmicsFacts CF.Proofs.RecordsFacts CF.Spec.Align CF.Proofs.MachineFacts CF.Proofs.LiftProps CF.Proofs.Examples.

(** In the file's own meaning: the swapped file aligns qb to rb exactly as often as the file aligns rb to qb
    (all four strand combinations: both sides go through the same [fwd]). *)
Theorem C10_spec_sym : forall f rb qb, Forall sec_ok f -> Forall sums_ok f ->
  mult_file (map swap_sec f) qb rb = mult_file f rb qb.
Proof. exact mult_file_swap. Qed.
Print Assumptions C10_spec_sym.

(** The swapped file is well formed when the file is. *)
Theorem C10_swap_wf : forall s, sec_ok s -> sums_ok s -> sec_ok (swap_sec s) /\ sums_ok (swap_sec s).
Proof. intros s H1 H2. split; [apply swap_sec_ok; exact H1|apply swap_sums_ok; exact H2]. Qed.
Print Assumptions C10_swap_wf.

(** On the machines: whatever pairings of rb -> qb lifting over the file yields (through any interval
    containing rb), lifting over the swapped file yields qb -> rb as often (through any interval containing qb). *)
Theorem C10_machine : forall f m m' iv iv', Forall sec_ok f ->
  build_secs f = Val (Ok m) -> build_secs (map swap_sec f) = Val (Ok m') -> wf_ival iv -> wf_ival iv' ->
  exists r r', liftover m iv = Val r /\ liftover m' iv' = Val r' /\
    forall rb qb, base_in iv rb = true -> base_in iv' qb = true ->
      mult_res (opt_list r) rb qb = mult_res (opt_list r') qb rb.
Proof. exact liftover_swap. Qed.
Print Assumptions C10_machine.

Example C10_nonvacuous : exists m m', build_secs ex_file = Val (Ok m) /\ build_secs (map swap_sec ex_file) = Val (Ok m') /\
  liftover m' {| ictg := [98]; istr := Neg; ia := 24; ib := 22 |} =
    Val (Some [ {| pref := {| ictg := [98]; istr := Neg; ia := 24; ib := 22 |}; pqry := {| ictg := [97]; istr := Pos; ia := 9; ib := 11 |} |} ]).
Proof. do 2 eexists. split; [vm_compute; reflexivity|]. split; [vm_compute; reflexivity|]. vm_compute. reflexivity. Qed.
