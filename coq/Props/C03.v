(** C03 — All-or-nothing validation: a machine is never built from an ill-formed chain.
    Pinned statements only; proofs in Proofs/BuildFacts.v and Proofs/MachineFacts.v. *)
Require Import CF.Proofs.Tac CF.Model.Omics CF.Model.Pair CF.Model.Text CF.Model.Records CF.Model.Reader CF.Model.Sections CF.Model.Machine
  CF.Proofs.OmicsFacts CF.Proofs.RecordsFacts CF.Proofs.SectionsFacts CF.Spec.Align CF.Proofs.MachineFacts CF.Proofs.LiftProps
  CF.Proofs.BuildFacts CF.Proofs.Examples CF.Proofs.FileFacts CF.Proofs.EolFacts CF.Proofs.Utf8Facts.

(** A machine is built from a stream of line reads only if the whole stream is grammatical (the grammar
    yields no error: every chain structurally complete, no blank/header/junk inside a section, no data before
    a header, every line parsable), every header is well formed (start<=end<=size on both sides), and in every
    chain the sizes and gaps add up exactly to the reference extent and to the query extent ([sums_ok]).
    The machine is then the one of exactly those sections: nothing is partially loaded. *)
Theorem C03_only_wellformed : forall rs m, build_reads rs = Val (Ok m) ->
  exists f, spec_sections None 0 rs = map Ok f /\ Forall sec_ok f /\ build_secs f = Val (Ok m) /\ Forall sums_ok f.
Proof. exact build_reads_ok_inv. Qed.
Print Assumptions C03_only_wellformed.

(** Any lexical or structural error anywhere in the stream refuses the whole file. *)
Theorem C03_any_error_refuses : forall rs, (exists e, In (Err e) (spec_sections None 0 rs)) -> forall m, build_reads rs <> Val (Ok m).
Proof. exact build_reads_error. Qed.
Print Assumptions C03_any_error_refuses.

(** A chain whose records do not add up on either side, by any amount, refuses the whole file. *)
Theorem C03_sums : forall f m, Forall sec_ok f -> build_secs f = Val (Ok m) -> Forall sums_ok f.
Proof. intros f m Hf Hb. destruct (build_secs_inv f m Hf Hb) as (b & _ & _ & H & _). exact H. Qed.
Print Assumptions C03_sums.

(** and contigs declared with two sizes refuse it too *)
Theorem C03_sizes : forall f m, Forall sec_ok f -> build_secs f = Val (Ok m) ->
  forall s1 s2, In s1 f -> In s2 f ->
    (sname (href (shdr s1)) = sname (href (shdr s2)) -> ssize (href (shdr s1)) = ssize (href (shdr s2))) /\
    (sname (hqry (shdr s1)) = sname (hqry (shdr s2)) -> ssize (hqry (shdr s1)) = ssize (hqry (shdr s2))).
Proof. exact build_sizes_consistent. Qed.
Print Assumptions C03_sizes.

(** Conversely the builder's verdict on a grammatical stream is exactly the section-level builder's. *)
Theorem C03_grammatical : forall rs f, spec_sections None 0 rs = map Ok f -> build_reads rs = build_secs f.
Proof. exact build_reads_of_grammar. Qed.
Print Assumptions C03_grammatical.

(** Every canonical file is accepted: for every list of sections of the shape the iterator yields ([sec_proper]:
    well-formed header, u64 values, non-terminating records then one terminating record) whose contig names
    contain no LF and are valid UTF-8 ([sec_names_ok]), the bytes obtained by re-serialising them (header
    line, data lines, blank line; LF or CRLF) are parsed back to exactly those sections, and the builder's
    verdict on the bytes is the section-level verdict - a machine exactly when every chain adds up and the
    contig sizes are consistent. *)
Theorem C03_accepts_canonical : forall eol f, eol = [LF] \/ eol = [CR; LF] -> Forall sec_proper f -> Forall sec_names_ok f ->
  spec_sections None 0 (raw_reads (src_of_bytes (join_lines eol (file_lines f)))) = map Ok f /\
  build (src_of_bytes (join_lines eol (file_lines f))) = build_secs f.
Proof. exact canonical_accepted. Qed.
Print Assumptions C03_accepts_canonical.

Example C03_nonvacuous : exists m, build_secs ex_file = Val (Ok m).
Proof. eexists. vm_compute. reflexivity. Qed.
