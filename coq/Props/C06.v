(** C06 — Panic freedom.  Pinned statements only; proofs in Proofs/PanicFacts.v.
    In the model every Rust panic site reachable from the public API is an explicit [Panic n] branch
    (Model/*.v list them: the unwrap inside omics' Interval::clamp, the five unwraps of
    ContiguousIntervalPair::clamp, the two unreachable!() arms of Sections::next, the expect()s of
    Display for data::Record, clamp(..).unwrap() in Machine::liftover, slice indexing in rust-lapper's
    lower_bound, and the two fuel markers 98/99).  Functions without such a branch (read_line_raw, lines(),
    the step-through, Sequence::interval after its repair, all parsers) are total by type.  Arithmetic is on
    N with explicit u64 checks, so the statements hold with overflow checks on and off alike: the model has no
    unchecked machine arithmetic left after the repair of finding F4. *)
Require Import CF.Proofs.Tac CF.Model.Omics CF.Model.Pair CF.Model.Records CF.Model.Reader CF.Model.Sections CF.Model.Machine
  CF.Proofs.OmicsFacts CF.Proofs.RecordsFacts CF.Proofs.SectionsFacts CF.Proofs.PanicFacts.

Theorem C06_sections : forall ln rs, exists r it' rest,
  sections_next {| sst := InBetween; sln := ln |} rs = Val (r, it', rest) /\ sst it' = InBetween.
Proof. exact sections_next_no_panic. Qed.
Print Assumptions C06_sections.

Theorem C06_sections_drain : forall rs ln fuel, (length rs + 1 < fuel)%nat ->
  exists items, sdrain fuel {| sst := InBetween; sln := ln |} rs = Val (items, true) /\ (length items <= length rs)%nat.
Proof. exact sdrain_finite. Qed.
Print Assumptions C06_sections_drain.

Theorem C06_build : forall rs, no_panic (build_reads rs).
Proof. exact build_reads_no_panic. Qed.
Print Assumptions C06_build.

Theorem C06_liftover : forall rs m iv, build_reads rs = Val (Ok m) -> wf_ival iv -> no_panic (liftover m iv).
Proof. exact liftover_no_panic. Qed.
Print Assumptions C06_liftover.

Theorem C06_print_record : forall d, drec_ok d -> no_panic (print_drec d).
Proof. exact print_drec_no_panic. Qed.
Print Assumptions C06_print_record.

(** Findings F2, F3 (fixed in /repo): the unrepaired iterator and clamp did panic. *)
Example C06_sections_old_refuted :
  let hdr := [99;104;97;105;110;32;48;32;97;32;52;32;43;32;48;32;52;32;98;32;53;32;45;32;48;32;53;32;49] in
  let rs := [ROk 30 hdr; ROk 6 [51;9;48;9;49]; ROk 1 []; ROk 2 [49]] in
  match sloop_old None InBetween 0 rs with
  | Val (Some (Err _), it, rest) => sloop_old None (sst it) (sln it) rest = Panic 11
  | _ => False
  end.
Proof. vm_compute. reflexivity. Qed.
