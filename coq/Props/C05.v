(** C05 — Section iterator conforms to the chain-file line grammar up to the first error.
    Pinned statements only; proofs in Proofs/SectionsFacts.v.

    The stream [rs] is the sequence of raw line reads the reader delivers (one per input line; see
    Model/Reader.v); [classify] parses each into blank / header / data / unparsable(text) / io error.
    [spec_sections None ln rs] (Proofs/SectionsFacts.v) is the grammar: skip blanks; a header, then
    non-terminating data, then one terminating data line make a section; the first offending line is
    reported with its kind (blank line with its 1-based number, header in section, data between sections,
    end of input in a section, unparsable line with its text, I/O error) and the list stops there. *)
Require Import CF.Proofs.Tac CF.Model.Records CF.Model.Reader CF.Model.Sections CF.Proofs.SectionsFacts CF.Proofs.OpsFacts.

(** For every stream and every drain that is allowed at least lines+2 calls: the items up to and
    including the first error are exactly the grammar's. *)
Theorem C05_prefix_is_grammar : forall rs ln fuel items,
  (length rs + 1 < fuel)%nat -> sdrain fuel {| sst := InBetween; sln := ln |} rs = Val (items, true) ->
  upto_err items = spec_sections None ln rs.
Proof. exact sdrain_prefix_is_grammar. Qed.
Print Assumptions C05_prefix_is_grammar.

(** ... and such a drain always exists: the iterator never panics and ends (shared with C06/C07). *)
Theorem C05_drain_total : forall rs ln fuel, (length rs + 1 < fuel)%nat ->
  exists items, sdrain fuel {| sst := InBetween; sln := ln |} rs = Val (items, true) /\ (length items <= length rs)%nat.
Proof. exact sdrain_finite. Qed.
Print Assumptions C05_drain_total.

(** Any section yielded anywhere in the full drain - in particular after an error - is still a run of
    consecutive input lines: a header line followed by exactly its data lines ([is_run]); that the last and
    only the last is terminating is C13_accepted_sections_proper's shape, proved for the grammar's items. *)
Theorem C05_sections_are_runs : forall rs ln fuel items, (length rs + 1 < fuel)%nat ->
  sdrain fuel {| sst := InBetween; sln := ln |} rs = Val (items, true) ->
  forall sec, In (Ok sec) items -> exists pre run post, rs = pre ++ run ++ post /\ is_run sec run.
Proof. exact sdrain_sections_are_runs. Qed.
Print Assumptions C05_sections_are_runs.

Example C05_nonvacuous :
  let hdr := [99;104;97;105;110;32;48;32;97;32;52;32;43;32;48;32;52;32;98;32;53;32;45;32;48;32;53;32;49] in
  let rs := [ROk 30 hdr; ROk 6 [51;9;48;9;49]; ROk 1 []; ROk 2 [49]] in
  exists h d1 d2, sdrain 6 sections_new rs =
    Val ([Err (EBlank 3); Err (EDataBetween d2)], true) /\
    spec_sections None 0 rs = [Err (EBlank 3)] /\ classify (ROk 30 hdr) = RHdr h /\ classify (ROk 6 [51;9;48;9;49]) = RData d1.
Proof. cbv zeta. do 3 eexists. vm_compute. repeat split; reflexivity. Qed.
