(** C08 — Truncated files and failing readers never produce a partial or shifted mapping (partial).
    Pinned statements only; proofs in Proofs/TruncFacts.v and Proofs/ReaderFacts.v.

    What is proved here is the property at the level of whole lines plus the two reader clauses.  The full
    statement also covers a cut *inside* a line (C08_trunc_bytes, below, stated but not proved in Coq): that
    case is decided on every byte offset of every generated file by the correspondence check and the
    truncation oracle; see DESIGN.md 5 (C08) for the case analysis the missing proof needs. *)
Require Import CF.Proofs.Tac CF.Model.Omics CF.Model.Pair CF.Model.Records CF.Model.Reader CF.Model.Sections CF.Model.Machine
  CF.Proofs.RecordsFacts CF.Proofs.SectionsFacts CF.Spec.Align CF.Proofs.MachineFacts CF.Proofs.BuildFacts CF.Proofs.ReaderFacts
  CF.Proofs.TruncFacts.

(** Cutting an accepted stream after any number of whole lines either fails or builds exactly the machine
    of some whole-chain prefix of the file; an incomplete chain never contributes mappings. *)
Theorem C08_trunc_lines_partial : forall rs f k, spec_sections None 0 rs = map Ok f ->
  (exists j, build_reads (firstn k rs) = build_secs (firstn j f)) \/ (exists e, build_reads (firstn k rs) = Val (Err e)).
Proof. exact build_reads_prefix. Qed.
Print Assumptions C08_trunc_lines_partial.

(** If the underlying reader fails hard at any read call (before end of input), the failure surfaces as an
    error of the build - never a machine, never a panic (C06_build). *)
Theorem C08_hard_fault : forall rs r n, In r rs -> r = RErr IoFail n -> forall m, build_reads rs <> Val (Ok m).
Proof. exact build_reads_io_fault. Qed.
Print Assumptions C08_hard_fault.

(** Interrupted reads that are retried do not change anything: inserting a transient Interrupted error
    at any fill_buf of any fault-free schedule leaves the stream of line reads (hence every result) unchanged. *)
Theorem C08_interrupted : forall l1 l2, no_fail (l1 ++ l2) ->
  raw_reads {| pending := []; future := l1 ++ Interrupted :: l2 |} = raw_reads {| pending := []; future := l1 ++ l2 |}.
Proof. exact raw_reads_interrupted. Qed.
Print Assumptions C08_interrupted.

Example C08_nonvacuous :
  raw_reads {| pending := []; future := [Chunk [52; 10; 53]; Interrupted; Chunk [54; 10]; Fail; Chunk [55]] |}
  = [ROk 2 [52]; ROk 3 [53; 54]; RErr IoFail 0; ROk 1 [55]].
Proof. vm_compute. reflexivity. Qed.
