(** C08 — Truncated files and failing readers never produce a partial or shifted mapping.
    Pinned statements only; proofs in Proofs/{ChunkFacts,CutFacts,TruncFacts,ReaderFacts}.v. *)
Require Import CF.Proofs.Tac CF.Model.Omics CF.Model.Pair CF.Model.Records CF.Model.Reader CF.Model.Sections CF.Model.Machine
  CF.Proofs.RecordsFacts CF.Proofs.SectionsFacts CF.Spec.Align CF.Proofs.MachineFacts CF.Proofs.BuildFacts CF.Proofs.ReaderFacts
  CF.Proofs.TruncFacts CF.Proofs.ChunkFacts CF.Proofs.CutFacts CF.Proofs.FaultSched CF.Proofs.FaultFacts CF.Proofs.Examples CF.Proofs.FileFacts CF.Proofs.EolFacts CF.Model.Text.

(** If any byte string from which a machine is built (any accepted file: any spelling, LF or CRLF) is cut
    at any byte offset k - inside a header field, inside a number, between fields, inside or after a line
    terminator - building from the cut bytes either fails or yields exactly the machine built from some
    whole-chain prefix [firstn j f] of the file's sections: an incomplete chain never contributes mappings.
    (The one way a cut line can still complete a chain - a data line cut down to a terminating record of the
    same size when every later block of that chain is empty - gives the same machine, because empty blocks are
    not indexed: finding F7.) *)
Theorem C08_truncation : forall b m k, build (src_of_bytes b) = Val (Ok m) ->
  exists f, spec_sections None 0 (raw_reads (src_of_bytes b)) = map Ok f /\ build_secs f = Val (Ok m) /\
    ((exists j, build (src_of_bytes (firstn k b)) = build_secs (firstn j f)) \/
     (exists e, build (src_of_bytes (firstn k b)) = Val (Err e))).
Proof. exact build_truncated. Qed.
Print Assumptions C08_truncation.

(** The same at the level of whole lines, for any stream of reads. *)
Theorem C08_trunc_lines : forall rs f k, spec_sections None 0 rs = map Ok f ->
  (exists j, build_reads (firstn k rs) = build_secs (firstn j f)) \/ (exists e, build_reads (firstn k rs) = Val (Err e)).
Proof. exact build_reads_prefix. Qed.
Print Assumptions C08_trunc_lines.

(** If the underlying reader fails hard at any read call (before end of input), the failure surfaces as an
    error of the build - never a machine, never a panic (C06_build). *)
Theorem C08_hard_fault : forall rs r n, In r rs -> r = RErr IoFail n -> forall m, build_reads rs <> Val (Ok m).
Proof. exact build_reads_io_fault. Qed.
Print Assumptions C08_hard_fault.

(** ... and a hard failure at any fill_buf of the underlying reader does reach that stream: whatever the
    chunking, a schedule containing a hard failure never yields a machine. *)
Theorem C08_hard_fault_schedule : forall s, In Fail (future s) -> forall m, build s <> Val (Ok m).
Proof.
  intros s H m. destruct (raw_reads_fail s H) as [n Hn]. unfold build. eapply build_reads_io_fault; [exact Hn|reflexivity].
Qed.
Print Assumptions C08_hard_fault_schedule.

(** Interrupted reads that are retried do not change anything: inserting a transient Interrupted error
    at any fill_buf of any fault-free schedule leaves the stream of line reads (hence every result) unchanged. *)
Theorem C08_interrupted : forall l1 l2, no_fail (l1 ++ l2) ->
  raw_reads {| pending := []; future := l1 ++ Interrupted :: l2 |} = raw_reads {| pending := []; future := l1 ++ l2 |}.
Proof. exact raw_reads_interrupted. Qed.
Print Assumptions C08_interrupted.

(** "... the failure surfaces as an I/O error from the call in progress": the reads of a schedule that delivers [flat l1]
    (any chunking, any number of retried interrupts) and then fails hard are the reads of the whole byte string for the lines
    completed so far, then the I/O error of the read in progress - no shortened line, nothing skipped ... *)
Theorem C08_fault_reads : forall l1 l2 b2, no_fail l1 ->
  raw_reads {| pending := []; future := l1 ++ Fail :: l2 |} =
  firstn (count_lf (flat l1)) (raw_reads (src_of_bytes (flat l1 ++ b2))) ++ RErr IoFail 0 :: raw_reads {| pending := []; future := l2 |}.
Proof. exact raw_reads_fault_schedule. Qed.
Print Assumptions C08_fault_reads.

(** ... and if the whole byte string [flat l1 ++ b2] would have given a machine, the build over the failing schedule returns
    exactly that I/O error, whatever the reader would deliver after the failure. *)
Theorem C08_hard_fault_is_io : forall l1 l2 b2 m, no_fail l1 -> build (src_of_bytes (flat l1 ++ b2)) = Val (Ok m) ->
  build {| pending := []; future := l1 ++ Fail :: l2 |} = Val (Err (BSections (EIo IoFail))).
Proof. exact build_fault_is_io. Qed.
Print Assumptions C08_hard_fault_is_io.

Example C08_nonvacuous :
  raw_reads {| pending := []; future := [Chunk [52; 10; 53]; Interrupted; Chunk [54; 10]; Fail; Chunk [55]] |}
  = [ROk 2 [52]; ROk 3 [53; 54]; RErr IoFail 0; ROk 1 [55]].
Proof. vm_compute. reflexivity. Qed.

(** the premises of [C08_hard_fault_is_io] are met by a real file: the bytes of [ex_file], the first 40 delivered in two
    chunks with an interrupt between them, then a hard failure *)
Example C08_fault_nonvacuous :
  let b := join_lines [LF] (file_lines ex_file) in
  let l1 := [Chunk (firstn 17 b); Interrupted; Chunk (firstn 23 (skipn 17 b))] in
  (exists m, build (src_of_bytes (flat l1 ++ skipn 40 b)) = Val (Ok m)) /\ no_fail l1 /\ (40 < length b)%nat /\
  build {| pending := []; future := l1 ++ Fail :: [Chunk (skipn 40 b)] |} = Val (Err (BSections (EIo IoFail))).
Proof. vm_compute. split; [eexists; reflexivity|]. split; [exact I|]. split; [lia|reflexivity]. Qed.
