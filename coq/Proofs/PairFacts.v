(** L4: interval-pair algebra (C15). *)
Require Import CF.Proofs.Tac CF.Model.Omics CF.Model.Pair CF.Proofs.OmicsFacts.

Definition wf_pair (p : pair) :=
  wf_ival (pref p) /\ wf_ival (pqry p) /\ in_u64 (pref p) /\ in_u64 (pqry p) /\ len (pref p) = len (pqry p).
(** the two intervals share at least one position *)
Definition meets (r iv : ival) : Prop :=
  match istr r with
  | Pos => N.max (ia r) (ia iv) <= N.min (ib r) (ib iv)
  | Neg => N.max (ib r) (ib iv) <= N.min (ia r) (ia iv)
  end.
Definition meetsb (r iv : ival) : bool :=
  match istr r with
  | Pos => N.max (ia r) (ia iv) <=? N.min (ib r) (ib iv)
  | Neg => N.max (ib r) (ib iv) <=? N.min (ia r) (ia iv)
  end.
(** the intersection of [r] and [iv] (same contig and strand) *)
Definition inter (r iv : ival) : ival :=
  match istr r with
  | Pos => {| ictg := ictg r; istr := Pos; ia := N.max (ia r) (ia iv); ib := N.min (ib r) (ib iv) |}
  | Neg => {| ictg := ictg r; istr := Neg; ia := N.min (ia r) (ia iv); ib := N.max (ib r) (ib iv) |}
  end.
Definition off1 (r iv : ival) : N := match istr r with Pos => N.max (ia r) (ia iv) - ia r | Neg => ia r - N.min (ia r) (ia iv) end.
Definition off2 (r iv : ival) : N := match istr r with Pos => N.min (ib r) (ib iv) - ia r | Neg => ia r - N.max (ib r) (ib iv) end.
Definition clip (p : pair) (iv : ival) : pair :=
  {| pref := sub (pref p) (off1 (pref p) iv) (off2 (pref p) iv);
     pqry := sub (pqry p) (off1 (pref p) iv) (off2 (pref p) iv) |}.

Lemma meetsb_spec r iv : meetsb r iv = true <-> meets r iv.
Proof. unfold meetsb, meets. destruct (istr r); lia. Qed.

Lemma offs_ok r iv : wf_ival r -> wf_ival iv -> istr iv = istr r -> meets r iv ->
  off1 r iv <= off2 r iv /\ off2 r iv <= len r.
Proof. unfold wf_ival, meets, off1, off2, len, count_entities, dist. intros H1 H2 E. rewrite E in *. destruct (istr r); lia. Qed.

Lemma sub_offs_inter r iv : wf_ival r -> wf_ival iv -> istr iv = istr r -> meets r iv ->
  sub r (off1 r iv) (off2 r iv) = inter r iv.
Proof.
  unfold wf_ival, meets, sub, inter, off1, off2, dirf. intros H1 H2 E. rewrite E in *.
  destruct (istr r); intros; f_equal; lia.
Qed.

Lemma ival_clamp_closed r iv : wf_ival r -> wf_ival iv -> ictg iv = ictg r -> istr iv = istr r -> meets r iv ->
  ival_clamp r iv = Val (Ok (sub r (off1 r iv) (off2 r iv))).
Proof.
  intros Hr Hiv Hc Hs Hm. unfold ival_clamp. rewrite Hc, Hs, contig_eqb_refl, strand_eqb_refl. cbn [negb].
  revert Hr Hiv Hm. unfold wf_ival, meets, sub, off1, off2, dirf, ival_try_new. rewrite Hs. cbn [cctg cstr cpos].
  rewrite contig_eqb_refl. destruct (istr r); cbn [strand_eqb negb]; intros.
  - destruct (N.min (ib r) (ib iv) <? N.max (ia r) (ia iv)) eqn:E; [lia|]. do 3 f_equal; lia.
  - destruct (N.min (ia r) (ia iv) <? N.max (ib r) (ib iv)) eqn:E; [lia|]. do 3 f_equal; lia.
Qed.

Lemma ival_clamp_mismatch r iv : ictg iv <> ictg r \/ istr iv <> istr r ->
  exists e, ival_clamp r iv = Val (Err e).
Proof.
  intros H. unfold ival_clamp.
  destruct (contig_eqb (ictg r) (ictg iv)) eqn:E1; cbn [negb]; [|eexists; reflexivity].
  destruct (strand_eqb (istr r) (istr iv)) eqn:E2; cbn [negb]; [|eexists; reflexivity].
  apply contig_eqb_eq in E1. apply strand_eqb_eq in E2. destruct H; congruence.
Qed.

Lemma pair_liftover_pt p k : wf_pair p -> k <= len (pref p) -> pair_liftover p (pt (pref p) k) = Some (pt (pqry p) k).
Proof.
  intros (Hr & Hq & Hur & Huq & Hl) Hk. unfold pair_liftover. rewrite offset_pt by assumption.
  apply at_offset_pt; auto. rewrite <- Hl. exact Hk.
Qed.

Lemma pair_liftover_outside p c : contains_coordinate (pref p) c = false -> pair_liftover p c = None.
Proof. intros H. unfold pair_liftover, coordinate_offset. rewrite H. reflexivity. Qed.

(** full characterisation of [liftover] *)
Lemma pair_liftover_iff p c q : wf_pair p ->
  (pair_liftover p c = Some q <-> exists k, k <= len (pref p) /\ c = pt (pref p) k /\ q = pt (pqry p) k).
Proof.
  intros Hp. pose proof Hp as (Hr & _). split.
  - intros H. destruct (contains_coordinate (pref p) c) eqn:E.
    + destruct (contains_is_pt _ _ Hr E) as (k & Hk & -> & _). rewrite pair_liftover_pt in H by assumption.
      injection H as <-. exists k. auto.
    + rewrite pair_liftover_outside in H by assumption. discriminate.
  - intros (k & Hk & -> & ->). apply pair_liftover_pt; assumption.
Qed.

Theorem clamp_closed (p : pair) (iv : ival) :
  wf_pair p -> wf_ival iv -> ictg iv = ictg (pref p) -> istr iv = istr (pref p) -> meets (pref p) iv ->
  pair_clamp p iv = Val (Ok (clip p iv)).
Proof.
  intros Hp Hiv Hc Hs Hm. pose proof Hp as (Hr & Hq & Hur & Huq & Hl).
  destruct (offs_ok _ _ Hr Hiv Hs Hm) as [H12 H2].
  unfold clip.
  remember (off1 (pref p) iv) as k1 eqn:Ek1. remember (off2 (pref p) iv) as k2 eqn:Ek2.
  unfold pair_clamp. rewrite ival_clamp_closed by assumption. rewrite <- Ek1, <- Ek2.
  rewrite istart_sub, iend_sub, pair_liftover_pt by (auto; lia).
  change (count_entities (sub (pref p) k1 k2)) with (len (sub (pref p) k1 k2)).
  rewrite len_sub by assumption.
  assert (Hcnt: forall a b, a <= b -> b <= len (pqry p) ->
            pair_try_new (sub (pref p) k1 k2) (sub (pqry p) a b) =
            if negb (k2 - k1 =? b - a) then Err EntityCounts
            else Ok {| pref := sub (pref p) k1 k2; pqry := sub (pqry p) a b |}).
  { intros a b Hab Hb. unfold pair_try_new. change count_entities with len. rewrite !len_sub by assumption. reflexivity. }
  destruct (k2 - k1 =? 0) eqn:E0.
  - assert (Hk : k2 = k1) by lia.
    rewrite try_new_pt by (auto; lia).
    rewrite Hcnt by lia.
    replace (k2 - k1 =? k1 - k1) with true by lia. cbn [negb]. rewrite Hk. reflexivity.
  - rewrite move_backward_pt by (auto; lia).
    rewrite contains_pt by (auto; lia). cbn [negb].
    rewrite pair_liftover_pt by (auto; lia).
    rewrite move_forward_pt by (auto; lia).
    replace (k2 - 1 + 1) with k2 by lia.
    rewrite try_new_pt by (auto; lia).
    rewrite Hcnt by lia.
    replace (k2 - k1 =? k2 - k1) with true by lia. reflexivity.
Qed.

Lemma clip_wf p iv : wf_pair p -> wf_ival iv -> istr iv = istr (pref p) -> meets (pref p) iv -> wf_pair (clip p iv).
Proof.
  intros (Hr & Hq & Hur & Huq & Hl) Hiv Hs Hm. destruct (offs_ok _ _ Hr Hiv Hs Hm) as [H12 H2].
  unfold wf_pair, clip; cbn [pref pqry].
  repeat split; try (apply wf_sub; auto; lia); try (apply in_u64_sub; auto; lia).
  all: try (apply in_u64_sub; auto; lia).
  rewrite !len_sub by (auto; lia). reflexivity.
Qed.

Lemma clip_ref_is_inter p iv : wf_pair p -> wf_ival iv -> istr iv = istr (pref p) -> meets (pref p) iv ->
  pref (clip p iv) = inter (pref p) iv.
Proof. intros (Hr & _) Hiv Hs Hm. unfold clip; cbn [pref]. apply sub_offs_inter; assumption. Qed.

Lemma pair_clamp_mismatch p iv : ictg iv <> ictg (pref p) \/ istr iv <> istr (pref p) ->
  exists e, pair_clamp p iv = Val (Err e).
Proof.
  intros H. destruct (ival_clamp_mismatch (pref p) iv H) as [e E]. unfold pair_clamp. rewrite E. eexists; reflexivity.
Qed.

Lemma pair_try_new_iff r q : (exists p, pair_try_new r q = Ok p) <-> len r = len q.
Proof.
  unfold pair_try_new, len. destruct (count_entities r =? count_entities q) eqn:E; cbn [negb]; split.
  - intros _. lia.
  - intros _. eexists; reflexivity.
  - intros [p H]. discriminate.
  - intros H. lia.
Qed.
Lemma pair_try_new_ok r q p : pair_try_new r q = Ok p -> p = {| pref := r; pqry := q |} /\ len r = len q.
Proof.
  unfold pair_try_new, len. destruct (count_entities r =? count_entities q) eqn:E; cbn [negb]; [|discriminate].
  intros [= <-]. split; [reflexivity|lia].
Qed.
