(** Header/record invariants and the header intervals in closed form (C14; used by C04, C03, C01). *)
Require Import CF.Proofs.Tac CF.Model.Omics CF.Model.Text CF.Model.Records CF.Proofs.OmicsFacts.

(** what every parsed header satisfies on each side *)
Definition seq_ok (s : seqrec) : Prop := sstart s <= send s /\ send s <= ssize s /\ ssize s <= U64MAX.
Definition hdr_ok (h : header) : Prop := seq_ok (href h) /\ seq_ok (hqry h).

(** the interbase position the library uses for a file-local position *)
Definition api_pos (st : strand) (size l : N) : N := match st with Pos => l | Neg => size - l end.
Definition seq_ival (s : seqrec) : ival :=
  {| ictg := sname s; istr := sstrand s; ia := api_pos (sstrand s) (ssize s) (sstart s);
     ib := api_pos (sstrand s) (ssize s) (send s) |}.

Lemma seq_interval_closed s : seq_ok s ->
  seq_interval s = Ok (seq_ival s) /\ wf_ival (seq_ival s) /\ in_u64 (seq_ival s) /\ len (seq_ival s) = send s - sstart s.
Proof.
  intros (H1 & H2 & H3). unfold seq_interval, seq_ival, ival_try_new, api_pos, wf_ival, in_u64, len, count_entities, dist.
  cbn [cctg cstr cpos]. rewrite contig_eqb_refl. cbn [negb strand_eqb].
  destruct (sstrand s); cbn [istr ia ib strand_eqb negb].
  - destruct (send s <? sstart s) eqn:E; [lia|]. repeat split; lia.
  - destruct (ssize s <? send s) eqn:E0; [lia|].
    destruct (ssize s - sstart s <? ssize s - send s) eqn:E; [lia|]. repeat split; lia.
Qed.

(** C14: a sequence whose end exceeds its size never yields wrapped coordinates: an error on '-',
    and on '+', where the size is not needed, the literal start..end interval *)
Lemma seq_interval_end_gt_size s : ssize s < send s ->
  match sstrand s with
  | Neg => exists e, seq_interval s = Err e
  | Pos => sstart s <= send s ->
           seq_interval s = Ok {| ictg := sname s; istr := Pos; ia := sstart s; ib := send s |}
  end.
Proof.
  intros H. unfold seq_interval. destruct (sstrand s).
  - intros Hle. unfold ival_try_new; cbn [cctg cstr cpos]. rewrite contig_eqb_refl. cbn [negb strand_eqb].
    destruct (send s <? sstart s) eqn:E; [lia|]. reflexivity.
  - destruct (ssize s <? send s) eqn:E; [|lia]. eexists; reflexivity.
Qed.

(** parse_u64 only yields u64 values *)
Lemma parse_digits_le l : forall acc n, acc <= U64MAX -> parse_digits acc l = Some n -> n <= U64MAX.
Proof.
  induction l as [|b r IH]; intros acc n Ha; cbn [parse_digits].
  - intros [= <-]. exact Ha.
  - destruct (is_digit b); [|discriminate].
    destruct (acc * 10 + (b - 48) <=? U64MAX) eqn:E; [|discriminate]. apply IH. lia.
Qed.
Lemma parse_u64_le s n : parse_u64 s = Some n -> n <= U64MAX.
Proof.
  unfold parse_u64. destruct s as [|b [|c r]]; [discriminate| |].
  - unfold is_digit. destruct ((48 <=? b) && (b <=? 57)) eqn:E; [|discriminate]. intros [= <-]. unfold U64MAX. lia.
  - destruct (b =? PLUS); apply parse_digits_le; unfold U64MAX; lia.
Qed.

Lemma seq_try_from_parts_ok nm sz st a b s : seq_try_from_parts nm sz st a b = Ok s ->
  sstart s <= send s /\ ssize s <= U64MAX /\ send s <= U64MAX /\ sname s = nm.
Proof.
  unfold seq_try_from_parts.
  destruct (parse_u64 sz) as [vsz|] eqn:E1; [|discriminate].
  destruct (parse_strand st) as [vst|]; [|discriminate].
  destruct (parse_u64 a) as [va|] eqn:E3; [|discriminate].
  destruct (parse_u64 b) as [vb|] eqn:E4; [|discriminate].
  destruct (vb <? va) eqn:E5; [discriminate|]. intros [= <-]; cbn.
  apply parse_u64_le in E1. apply parse_u64_le in E4. repeat split; try lia.
Qed.

(** C14: every accepted header has 0 <= start <= end <= size on both sides *)
Lemma parse_header_ok s h : parse_header s = Ok h -> hdr_ok h.
Proof.
  unfold parse_header.
  destruct (split SP s) as [|p0 [|p1 [|p2 [|p3 [|p4 [|p5 [|p6 [|p7 [|p8 [|p9 [|p10 [|p11 [|p12 [|p13 l]]]]]]]]]]]]]]; try discriminate.
  destruct (bytes_eqb p0 CHAIN); cbn [negb]; [|discriminate].
  destruct (parse_u64 p1); [|discriminate].
  destruct (seq_try_from_parts p2 p3 p4 p5 p6) as [r|] eqn:Er; [|discriminate].
  destruct (seq_try_from_parts p7 p8 p9 p10 p11) as [q|] eqn:Eq; [|discriminate].
  destruct (parse_u64 p12); [|discriminate].
  destruct (ssize r <? send r) eqn:E1; [discriminate|].
  destruct (ssize q <? send q) eqn:E2; [discriminate|].
  intros [= <-]. apply seq_try_from_parts_ok in Er. apply seq_try_from_parts_ok in Eq.
  unfold hdr_ok, seq_ok; cbn [href hqry]. repeat split; lia.
Qed.

(** C14: gap values exactly when non-terminating *)
Lemma drec_try_new_ok size dt dq term d : drec_try_new size dt dq term = Ok d ->
  dsize d = size /\ ddt d = dt /\ ddq d = dq /\ dterm d = term /\
  (term = true -> dt = None /\ dq = None) /\ (term = false -> (exists x, dt = Some x) /\ (exists y, dq = Some y)).
Proof.
  unfold drec_try_new. destruct term, dt, dq; try discriminate; intros [= <-]; cbn; repeat split; try discriminate; eauto.
Qed.
Lemma drec_try_new_err size dt dq term :
  (exists e, drec_try_new size dt dq term = Err e) <->
  (if term then dt <> None \/ dq <> None else dt = None \/ dq = None).
Proof.
  unfold drec_try_new. destruct term, dt, dq; split; intros H; try (destruct H as [e H]; discriminate);
    try (eexists; reflexivity); try (left; congruence); try (right; congruence); try (destruct H; congruence).
Qed.
Definition drec_ok (d : drec) : Prop :=
  if dterm d then ddt d = None /\ ddq d = None else (exists x, ddt d = Some x) /\ (exists y, ddq d = Some y).
Lemma parse_drec_ok s d : parse_drec s = Ok d ->
  drec_ok d /\ (dterm d = true <-> length (split TAB s) = 1%nat) /\ (dterm d = false <-> length (split TAB s) = 3%nat).
Proof.
  unfold parse_drec, drec_ok. destruct (split TAB s) as [|p0 [|p1 [|p2 [|p3 l]]]]; try discriminate.
  - destruct (parse_u64 p0); [|discriminate]. cbn. intros [= <-]. cbn. repeat split; auto; try discriminate; try lia.
  - destruct (parse_u64 p0); [|discriminate]. destruct (parse_u64 p1); [|discriminate]. destruct (parse_u64 p2); [|discriminate].
    cbn. intros [= <-]. cbn. repeat split; eauto; try discriminate; try lia.
Qed.
