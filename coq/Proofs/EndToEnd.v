(** From the bytes (any read schedule) to base pairings: the composition of the builder theorems with the
    liftover theorems, so that C01/C02 can be read without the intermediate [build_secs]. *)
Require Import CF.Proofs.Tac CF.Model.Omics CF.Model.Pair CF.Model.Records CF.Model.Reader CF.Model.Sections CF.Model.Machine
  CF.Proofs.OmicsFacts CF.Proofs.PairFacts CF.Proofs.RecordsFacts CF.Proofs.SectionsFacts CF.Spec.Align CF.Proofs.MachineFacts
  CF.Proofs.LiftProps CF.Proofs.BuildFacts.

Theorem end_to_end s m iv : build s = Val (Ok m) -> wf_ival iv ->
  exists f r, spec_sections None 0 (raw_reads s) = map Ok f /\ Forall sec_ok f /\ Forall sums_ok f /\
    liftover m iv = Val r /\
    (forall rb qb, mult_res (opt_list r) rb qb = mult_spec f iv rb qb) /\
    Forall (fun p => wf_pair p /\
              forall i, i < len (pref p) ->
                exists sec blk, In sec f /\ In blk (sec_blocks sec) /\ block_maps (shdr sec) blk (rbase p i) (qbase p i) = true)
           (opt_list r).
Proof.
  intros Hb Hiv. unfold build in Hb. destruct (build_reads_ok_inv _ _ Hb) as (f & Hg & Hok & Hbs & Hsums).
  destruct (liftover_multiset f m iv Hok Hbs Hiv) as (r & Hr & Hm).
  exists f, r. repeat (split; [assumption|]).
  destruct r as [ps|]; [|constructor]. cbn [opt_list]. exact (liftover_sound f m iv ps Hok Hbs Hiv Hr).
Qed.
