(** C08: the reads of a schedule that fails hard after delivering a prefix of a byte string. *)
Require Import CF.Proofs.Tac CF.Model.Text CF.Model.Records CF.Model.Reader CF.Proofs.ReaderFacts CF.Proofs.ChunkFacts.

Definition fsim (s : src) (b1 : bytes) (l2 : list event) : Prop :=
  exists l1, future s = l1 ++ Fail :: l2 /\ no_fail l1 /\ pending s ++ flat l1 = b1.

Lemma raw_reads_unfold s : raw_reads s =
  match read_line_raw s with (REof, _) => [] | (r, s') => r :: raw_reads s' end.
Proof.
  unfold raw_reads at 1. cbn [raw_reads_fuel]. destruct (read_line_raw s) as [r s'] eqn:E.
  destruct r as [n t|e n|]; try reflexivity; f_equal; unfold raw_reads;
    pose proof (read_line_raw_size _ _ _ E ltac:(discriminate)); apply raw_reads_fuel_enough; lia.
Qed.

Lemma ru_flat_fail l1 l2 : no_fail l1 -> forall acc,
  let '(t, rest, found) := take_line (flat l1) in
  if found then exists s', ru (l1 ++ Fail :: l2) acc = (Ok (acc ++ t), s') /\ fsim s' rest l2
  else ru (l1 ++ Fail :: l2) acc = (Err tt, {| pending := []; future := l2 |}).
Proof.
  induction l1 as [|e r IH]; intros Hn acc; cbn [flat app ru].
  - cbn [take_line]. reflexivity.
  - destruct e as [c| |]; cbn [no_fail] in Hn; [| |contradiction].
    + rewrite take_line_app. destruct (take_line c) as [[t rest] found] eqn:Ec. destruct found.
      * eexists. split; [reflexivity|]. exists r. cbn [future pending]. auto.
      * pose proof (take_line_split c) as Hs. rewrite Ec in Hs. destruct Hs as (Hc & Hnf & _).
        destruct (Hnf eq_refl) as [-> _]. rewrite app_nil_r in Hc. subst t.
        specialize (IH Hn (acc ++ c)). destruct (take_line (flat r)) as [[t2 rest2] f2]. destruct f2.
        -- destruct IH as (s' & E & Hsim). exists s'. rewrite E, <- app_assoc. auto.
        -- exact IH.
    + apply IH. exact Hn.
Qed.

Lemma take_line_found c : In LF c -> let '(_, _, found) := take_line c in found = true.
Proof.
  intros H. pose proof (take_line_split c) as Hs. destruct (take_line c) as [[t rest] found]. destruct found; [reflexivity|].
  destruct Hs as (_ & Hnf & _). destruct (Hnf eq_refl) as [_ Hn]. contradiction.
Qed.
Lemma take_line_notfound c : ~ In LF c -> take_line c = (c, [], false).
Proof.
  intros H. pose proof (take_line_split c) as Hs. destruct (take_line c) as [[t rest] found]. destruct found.
  - destruct Hs as (Hc & _ & Hf). destruct (Hf eq_refl) as (t0 & -> & _). exfalso. apply H. rewrite Hc. apply in_or_app. left. apply in_or_app. right. left. reflexivity.
  - destruct Hs as (Hc & Hnf & _). destruct (Hnf eq_refl) as [-> _]. rewrite app_nil_r in Hc. subst. reflexivity.
Qed.

(** one read: while the delivered prefix still holds a complete line, the read is that of the whole byte string;
    after that, the read in progress fails *)
Lemma read_until_fsim s b1 l2 b2 : fsim s b1 l2 ->
  (In LF b1 -> exists l s' b1', read_until s = (Ok l, s') /\ read_until (src_of_bytes (b1 ++ b2)) = (Ok l, src_of_bytes (b1' ++ b2)) /\
                 fsim s' b1' l2 /\ l <> [] /\ b1 = l ++ b1') /\
  (~ In LF b1 -> read_until s = (Err tt, {| pending := []; future := l2 |})).
Proof.
  intros (l1 & Hfut & Hn & Hb). unfold read_until, src_of_bytes. cbn [pending future]. rewrite Hfut. subst b1. split.
  - intros Hin. rewrite <- app_assoc, take_line_app. pose proof (take_line_split (pending s)) as Hs.
    destruct (take_line (pending s)) as [[t rest] found] eqn:Ep. destruct found.
    + destruct Hs as (Hc & _ & Hf). destruct (Hf eq_refl) as (t0 & Ht & _).
      exists t. eexists. exists (rest ++ flat l1). split; [reflexivity|]. split; [rewrite <- app_assoc; reflexivity|]. split.
      * exists l1. cbn [future pending]. auto.
      * split; [subst t; destruct t0; discriminate|]. rewrite Hc, <- app_assoc. reflexivity.
    + destruct Hs as (Hc & Hnf & _). destruct (Hnf eq_refl) as [-> Hnp]. rewrite app_nil_r in Hc. subst t.
      assert (Hin1: In LF (flat l1)) by (apply in_app_or in Hin as [H|H]; [contradiction|exact H]).
      pose proof (ru_flat_fail l1 l2 Hn (pending s)) as H. pose proof (take_line_found _ Hin1) as Hfd.
      rewrite take_line_app. pose proof (take_line_split (flat l1)) as Hs1.
      destruct (take_line (flat l1)) as [[t2 rest2] f2]. subst f2.
      destruct H as (s' & E & Hsim). destruct Hs1 as (Hc1 & _ & Hf1). destruct (Hf1 eq_refl) as (t0 & Ht & _).
      exists (pending s ++ t2), s', rest2. split; [exact E|]. split; [reflexivity|]. split; [exact Hsim|]. split.
      * subst t2. intros Hnil. apply app_eq_nil in Hnil as [_ Hnil]. destruct t0; discriminate.
      * rewrite Hc1, app_assoc. reflexivity.
  - intros Hnin. assert (Hp: ~ In LF (pending s)) by (intros H; apply Hnin; apply in_or_app; left; exact H).
    assert (Hf: ~ In LF (flat l1)) by (intros H; apply Hnin; apply in_or_app; right; exact H).
    rewrite (take_line_notfound _ Hp). pose proof (ru_flat_fail l1 l2 Hn (pending s)) as H.
    rewrite (take_line_notfound _ Hf) in H. exact H.
Qed.

Lemma count_lf_app a b : count_lf (a ++ b) = (count_lf a + count_lf b)%nat.
Proof. induction a as [|x a IH]; cbn [app count_lf]; [reflexivity|]. destruct (x =? LF); rewrite IH; reflexivity. Qed.
Lemma count_lf_zero b : ~ In LF b -> count_lf b = 0%nat.
Proof.
  induction b as [|x b IH]; intros H; cbn [count_lf]; [reflexivity|]. destruct (x =? LF) eqn:E.
  - apply N.eqb_eq in E. exfalso. apply H. left. exact E.
  - apply IH. intros Hin. apply H. right. exact Hin.
Qed.
Lemma count_lf_line t0 : ~ In LF t0 -> count_lf (t0 ++ [LF]) = 1%nat.
Proof. intros H. rewrite count_lf_app, (count_lf_zero _ H). cbn. reflexivity. Qed.

(** the reads of a schedule that delivers [b1] (in any chunking, with any interrupts) and then fails hard, where [b1 ++ b2] is
    the whole byte string: the reads of the whole for the lines completed within [b1], then the I/O error of the read in
    progress, then whatever the reader delivers afterwards *)
Theorem raw_reads_fault_prefix : forall n s b1 l2 b2, (length b1 < n)%nat -> fsim s b1 l2 ->
  raw_reads s = firstn (count_lf b1) (raw_reads (src_of_bytes (b1 ++ b2))) ++
                RErr IoFail 0 :: raw_reads {| pending := []; future := l2 |}.
Proof.
  induction n as [|n IH]; intros s b1 l2 b2 Hlen Hsim; [lia|].
  destruct (read_until_fsim s b1 l2 b2 Hsim) as [Hyes Hno].
  destruct (in_dec N.eq_dec LF b1) as [Hin|Hnin].
  - destruct (Hyes Hin) as (l & s' & b1' & E1 & E2 & Hs' & Hne & Hb).
    rewrite (raw_reads_unfold s), (raw_reads_unfold (src_of_bytes (b1 ++ b2))). unfold read_line_raw. rewrite E1, E2.
    assert (Hl: exists t0, l = t0 ++ [LF] /\ ~ In LF t0).
    { revert E2. unfold read_until, src_of_bytes. cbn [pending future]. pose proof (take_line_split (b1 ++ b2)) as Hs.
      rewrite take_line_app. pose proof (take_line_found _ Hin) as Hfd. pose proof (take_line_split b1) as Hs1.
      destruct (take_line b1) as [[t rest] found]. subst found. destruct Hs1 as (_ & _ & Hf). destruct (Hf eq_refl) as (t0 & -> & Hn0).
      intros [= <- _]. exists t0. auto. }
    destruct Hl as (t0 & Hl & Hn0).
    assert (Hc: count_lf b1 = S (count_lf b1')) by (rewrite Hb, count_lf_app, Hl, (count_lf_line _ Hn0); reflexivity).
    assert (Hlen': (length b1' < n)%nat) by (rewrite Hb, app_length in Hlen; destruct l; [contradiction|cbn in Hlen; lia]).
    rewrite Hc. destruct (negb (utf8_valid l)).
    + cbn [firstn app]. f_equal. apply IH; assumption.
    + destruct l as [|x l']; [contradiction|]. cbn [firstn app]. f_equal. apply IH; assumption.
  - rewrite (count_lf_zero _ Hnin). cbn [firstn app]. rewrite (raw_reads_unfold s). unfold read_line_raw. rewrite (Hno Hnin). reflexivity.
Qed.

Corollary raw_reads_fault_schedule l1 l2 b2 : no_fail l1 ->
  raw_reads {| pending := []; future := l1 ++ Fail :: l2 |} =
  firstn (count_lf (flat l1)) (raw_reads (src_of_bytes (flat l1 ++ b2))) ++ RErr IoFail 0 :: raw_reads {| pending := []; future := l2 |}.
Proof.
  intros Hn. apply (raw_reads_fault_prefix (S (length (flat l1)))); [lia|]. exists l1. cbn [future pending]. auto.
Qed.
