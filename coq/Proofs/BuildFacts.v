(** From the reader's stream of line reads to the section-level builder (C03; lifts C01.. to reads). *)
From Coq Require Import Wf_nat.
Require Import CF.Proofs.Tac CF.Model.Omics CF.Model.Pair CF.Model.Text CF.Model.Records CF.Model.Reader CF.Model.Sections
  CF.Model.StepThrough CF.Model.Lapper CF.Model.Machine
  CF.Proofs.OmicsFacts CF.Proofs.RecordsFacts CF.Proofs.StepFacts CF.Proofs.SectionsFacts
  CF.Spec.Align CF.Proofs.MachineFacts.

(** the builder over the grammar's items *)
Fixpoint build_items (items : list sitem) (b : bstate) : outcome (result builderr bstate) :=
  match items with
  | [] => Val (Ok b)
  | Err e :: _ => Val (Err (BSections e))
  | Ok sec :: r => match add_section b sec with
                   | Val (Ok b') => build_items r b'
                   | other => other
                   end
  end.

Theorem build_loop_grammar : forall rs ln fuel b, (length rs + 1 < fuel)%nat ->
  build_loop fuel {| sst := InBetween; sln := ln |} rs b = build_items (spec_sections None ln rs) b.
Proof.
  intros rs. remember (length rs) as n eqn:En. revert rs En.
  induction n as [n IHn] using lt_wf_ind. intros rs En ln fuel b Hf.
  destruct fuel as [|fuel]; [lia|]. cbn [build_loop].
  destruct (next_between ln rs) as (r & it' & rest & E & Hst & Hle & Hlt & Hnone). rewrite E.
  pose proof (next_spec _ _ _ _ _ E) as S.
  destruct r as [[sec|e]|].
  - rewrite S. cbn [build_items].
    destruct (add_section b sec) as [[b'|e]|s]; try reflexivity.
    destruct it' as [st' ln']; cbn [sst sln] in *; subst st'.
    assert (Hr: (length rest < length rs)%nat) by (apply Hlt; congruence).
    apply (IHn (length rest)); try lia; reflexivity.
  - rewrite S. reflexivity.
  - rewrite S. reflexivity.
Qed.

Lemma build_items_oks f : forall b, build_items (map Ok f) b = build_secs_loop f b.
Proof.
  induction f as [|s r IH]; intros b; cbn [map build_items build_secs_loop]; [reflexivity|].
  destruct (add_section b s) as [[b'|e]|p]; try reflexivity. apply IH.
Qed.

Lemma build_items_ok_inv items : forall b b', build_items items b = Val (Ok b') ->
  exists f, items = map Ok f.
Proof.
  induction items as [|[sec|e] r IH]; intros b b'; cbn [build_items].
  - intros _. exists []. reflexivity.
  - destruct (add_section b sec) as [[b1|e]|p]; try discriminate. intros H. apply IH in H as [f ->]. exists (sec :: f). reflexivity.
  - discriminate.
Qed.

(** every section the grammar produces has a parsed, hence well-formed, header *)
Lemma classify_hdr_ok r h : classify r = RHdr h -> hdr_ok h.
Proof.
  unfold classify. destruct r as [n t|e n|]; try discriminate.
  unfold parse_line. destruct t as [|c t']; [discriminate|].
  destruct (starts_with CHAIN (c :: t')).
  - destruct (parse_header (c :: t')) as [h'|e] eqn:E; [|discriminate]. intros [= <-]. eapply parse_header_ok; eauto.
  - destruct (parse_drec (c :: t')); discriminate.
Qed.
Lemma spec_sections_ok rs : forall cur idx, (match cur with Some s => sec_ok s | None => True end) ->
  Forall (fun it => match it with Ok s => sec_ok s | Err _ => True end) (spec_sections cur idx rs).
Proof.
  induction rs as [|r rest IH]; intros cur idx Hc; cbn [spec_sections].
  - destruct cur; repeat constructor.
  - destruct (classify r) as [|h|d|e t|e] eqn:C.
    + destruct cur; [repeat constructor|apply IH; exact I].
    + destruct cur; [repeat constructor|]. apply IH. unfold sec_ok; cbn [shdr]. eapply classify_hdr_ok; eauto.
    + destruct cur as [s|]; [|repeat constructor]. destruct (dterm d).
      * constructor; [exact Hc|apply IH; exact I].
      * apply IH. exact Hc.
    + repeat constructor.
    + repeat constructor.
Qed.

(** C03 (reads level): a machine is built only when the whole stream is grammatical and every chain
    adds up; nothing is partially loaded *)
Theorem build_reads_ok_inv rs m : build_reads rs = Val (Ok m) ->
  exists f, spec_sections None 0 rs = map Ok f /\ Forall sec_ok f /\ build_secs f = Val (Ok m) /\ Forall sums_ok f.
Proof.
  unfold build_reads, sections_new. rewrite build_loop_grammar by lia.
  change {| bhm := []; bref := []; bqry := [] |} with bstate0.
  destruct (build_items (spec_sections None 0 rs) bstate0) as [[b|e]|p] eqn:E; try discriminate.
  intros [= <-]. destruct (build_items_ok_inv _ _ _ E) as [f Hf]. exists f. split; [exact Hf|].
  assert (Hok: Forall sec_ok f).
  { pose proof (spec_sections_ok rs None 0 I) as H. rewrite Hf in H. rewrite Forall_forall in *. intros s Hs.
    apply (H (Ok s)). apply in_map. exact Hs. }
  split; [exact Hok|]. rewrite Hf, build_items_oks in E. unfold build_secs. rewrite E. split; [reflexivity|].
  destruct (build_secs_loop_ok f Hok _ _ E) as [H _]. exact H.
Qed.

(** and conversely: a grammatical stream of sections that add up, with consistent sizes, is accepted *)
Theorem build_reads_of_grammar rs f : spec_sections None 0 rs = map Ok f -> build_reads rs = build_secs f.
Proof.
  intros Hf. unfold build_reads, sections_new. rewrite build_loop_grammar by lia. rewrite Hf, build_items_oks.
  change {| bhm := []; bref := []; bqry := [] |} with bstate0. unfold build_secs. reflexivity.
Qed.

(** any error of the grammar refuses the file: no machine *)
Theorem build_reads_error rs : (exists e, In (Err e) (spec_sections None 0 rs)) -> forall m, build_reads rs <> Val (Ok m).
Proof.
  intros [e He] m H. apply build_reads_ok_inv in H as (f & Hf & _). rewrite Hf in He. apply in_map_iff in He as (s & Hs & _). discriminate.
Qed.
