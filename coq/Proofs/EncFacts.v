(** C12: consumers see only the texts of the line reads - so two encodings with the same texts (LF / CRLF, final newline or
    none) give the same parsed lines, the same sections and errors, and the same machine. *)
Require Import CF.Proofs.Tac CF.Model.Omics CF.Model.Pair CF.Model.Text CF.Model.Records CF.Model.Reader CF.Model.Sections CF.Model.Machine
  CF.Proofs.SectionsFacts CF.Proofs.ReaderFacts CF.Proofs.FileFacts CF.Proofs.EolFacts CF.Proofs.BuildFacts.

Lemma texts_cons_inv r rs t ts : texts (r :: rs) = t :: ts -> all_ok (r :: rs) -> exists n, r = ROk n t /\ texts rs = ts /\ all_ok rs.
Proof.
  intros Ht Ha. inversion Ha as [|? ? Hr Hrs]; subst. destruct r as [n t0|e n|]; try contradiction.
  cbn [texts map] in Ht. injection Ht as -> Hts. exists n. auto.
Qed.

Lemma classify_text n1 n2 t : classify (ROk n1 t) = classify (ROk n2 t).
Proof. reflexivity. Qed.

Lemma map_classify_texts rs1 : forall rs2, texts rs1 = texts rs2 -> all_ok rs1 -> all_ok rs2 -> map classify rs1 = map classify rs2.
Proof.
  induction rs1 as [|r1 rs1 IH]; intros [|r2 rs2] Ht H1 H2; try discriminate; [reflexivity|].
  inversion H1 as [|? ? Hr1 Hrs1]; subst. destruct r1 as [n1 t1|e n|]; try contradiction.
  destruct (texts_cons_inv r2 rs2 t1 (texts rs1) (eq_sym Ht) H2) as (n2 & -> & Ht2 & Ha2).
  cbn [map]. rewrite (classify_text n1 n2). f_equal. apply IH; auto.
Qed.

(** the grammar is a function of the classified lines *)
Lemma spec_sections_classify rs1 : forall rs2 cur idx, map classify rs1 = map classify rs2 ->
  spec_sections cur idx rs1 = spec_sections cur idx rs2.
Proof.
  induction rs1 as [|r1 rs1 IH]; intros [|r2 rs2] cur idx H; try discriminate; [reflexivity|].
  cbn [map] in H. injection H as Hc Hr. cbn [spec_sections]. rewrite <- Hc.
  destruct (classify r1); try reflexivity.
  - destruct cur; [reflexivity|]. apply IH; exact Hr.
  - destruct cur; [reflexivity|]. apply IH; exact Hr.
  - destruct cur as [s|]; [|reflexivity]. destruct (dterm d); [f_equal|]; apply IH; exact Hr.
Qed.

Lemma build_reads_classify rs1 rs2 : map classify rs1 = map classify rs2 -> build_reads rs1 = build_reads rs2.
Proof.
  intros H. unfold build_reads, sections_new. rewrite !build_loop_grammar by lia.
  rewrite (spec_sections_classify rs1 rs2 None 0 H). reflexivity.
Qed.

(** same texts, all reads successful: same parsed lines, same grammar items (sections and error), same build result *)
Theorem same_texts_same_everything rs1 rs2 : texts rs1 = texts rs2 -> all_ok rs1 -> all_ok rs2 ->
  map classify rs1 = map classify rs2 /\ spec_sections None 0 rs1 = spec_sections None 0 rs2 /\ build_reads rs1 = build_reads rs2.
Proof.
  intros Ht H1 H2. pose proof (map_classify_texts rs1 rs2 Ht H1 H2) as Hc. split; [exact Hc|]. split.
  - apply spec_sections_classify; exact Hc.
  - apply build_reads_classify; exact Hc.
Qed.

(** LF versus CRLF *)
Theorem eol_invariant ls : Forall (line_ok [LF]) ls -> Forall (line_ok [CR; LF]) ls ->
  let a := raw_reads (src_of_bytes (join_lines [LF] ls)) in
  let b := raw_reads (src_of_bytes (join_lines [CR; LF] ls)) in
  map classify a = map classify b /\ spec_sections None 0 a = spec_sections None 0 b /\
  build (src_of_bytes (join_lines [LF] ls)) = build (src_of_bytes (join_lines [CR; LF] ls)).
Proof.
  intros H1 H2 a b. destruct (raw_reads_join [LF] ls (or_introl eq_refl) H1) as [Ta Oa].
  destruct (raw_reads_join [CR; LF] ls (or_intror eq_refl) H2) as [Tb Ob].
  unfold build. apply same_texts_same_everything; [rewrite Ta, Tb; reflexivity|exact Oa|exact Ob].
Qed.

(** final newline or none *)
Theorem final_newline_invariant eol init last : eol = [LF] \/ eol = [CR; LF] ->
  Forall (line_ok eol) init -> line_ok eol last -> last <> [] -> utf8_valid last = true ->
  let a := raw_reads (src_of_bytes (join_lines eol init ++ last)) in
  let b := raw_reads (src_of_bytes (join_lines eol (init ++ [last]))) in
  map classify a = map classify b /\ spec_sections None 0 a = spec_sections None 0 b /\
  build (src_of_bytes (join_lines eol init ++ last)) = build (src_of_bytes (join_lines eol (init ++ [last]))).
Proof.
  intros He Hi Hl Hne Hu a b. destruct Hl as (Hnl & Hul & Hcr).
  destruct (raw_reads_no_final_newline eol init last He Hi Hne Hnl Hu) as [Ta Oa].
  assert (Hall: Forall (line_ok eol) (init ++ [last])).
  { apply Forall_app. split; [exact Hi|]. constructor; [|constructor]. repeat split; assumption. }
  destruct (raw_reads_join eol (init ++ [last]) He Hall) as [Tb Ob].
  unfold build. apply same_texts_same_everything; [rewrite Ta, Tb; reflexivity|exact Oa|exact Ob].
Qed.

(** ---------- blank padding anywhere between sections, up to the machine ---------- *)
Require Import CF.Proofs.CutFacts.

Lemma spec_sections_app_ok rs1 idx f1 : spec_sections None idx rs1 = map Ok f1 ->
  exists idx', forall rest, spec_sections None idx (rs1 ++ rest) = map Ok f1 ++ spec_sections None idx' rest.
Proof.
  intros H. pose proof (spec_sections_split rs1 None idx [] f1) as Hs. rewrite app_nil_r in Hs.
  destruct (Hs H) as (j & cur' & idx' & Hall & Hend). cbn [spec_sections] in Hend.
  destruct cur' as [s|]; [destruct (skipn j f1); discriminate|].
  assert (Hj: firstn j f1 = f1).
  { destruct (skipn j f1) eqn:E; [|discriminate]. rewrite <- (firstn_skipn j f1) at 2. rewrite E, app_nil_r. reflexivity. }
  exists idx'. intros rest. rewrite Hall, Hj. reflexivity.
Qed.

(** a blank line inserted after any number of complete sections changes the grammar's items only in quoted line numbers *)
Theorem padding_anywhere rs1 f1 r rest : spec_sections None 0 rs1 = map Ok f1 -> classify r = RBlank ->
  map forget_ln (spec_sections None 0 (rs1 ++ r :: rest)) = map forget_ln (spec_sections None 0 (rs1 ++ rest)).
Proof.
  intros H Hr. destruct (spec_sections_app_ok rs1 0 f1 H) as (idx' & Hall). rewrite !Hall, !map_app. f_equal.
  apply spec_sections_pad_between. exact Hr.
Qed.

Definition forget_e (e : builderr) : builderr := match e with BSections (EBlank _) => BSections (EBlank 0) | x => x end.
Definition forget_b {A} (o : outcome (result builderr A)) : outcome (result builderr A) :=
  match o with Val (Err e) => Val (Err (forget_e e)) | x => x end.

Lemma build_items_forget items1 : forall items2 b, map forget_ln items1 = map forget_ln items2 ->
  forget_b (build_items items1 b) = forget_b (build_items items2 b).
Proof.
  induction items1 as [|i1 r1 IH]; intros [|i2 r2] b H; try discriminate; [reflexivity|].
  cbn [map] in H. injection H as Hi Hr. cbn [build_items].
  destruct i1 as [s1|e1], i2 as [s2|e2].
  - cbn [forget_ln] in Hi. injection Hi as ->. destruct (add_section b s2) as [[b'|e]|p]; [apply IH; exact Hr|reflexivity|reflexivity].
  - exfalso. destruct e2; discriminate.
  - exfalso. destruct e1; discriminate.
  - cbn [forget_b]. do 2 f_equal. destruct e1, e2; cbn [forget_ln] in Hi; try discriminate; try (injection Hi as <-); try reflexivity; congruence.
Qed.

(** ... and the build: the same machine, or the same refusal (up to the line number quoted by a blank-line error) *)
Theorem build_padding_anywhere rs1 f1 r rest : spec_sections None 0 rs1 = map Ok f1 -> classify r = RBlank ->
  forget_b (build_reads (rs1 ++ r :: rest)) = forget_b (build_reads (rs1 ++ rest)).
Proof.
  intros H Hr. pose proof (padding_anywhere rs1 f1 r rest H Hr) as Hp.
  unfold build_reads, sections_new. rewrite !build_loop_grammar by lia.
  pose proof (build_items_forget _ _ {| bhm := []; bref := []; bqry := [] |} Hp) as Hb.
  destruct (build_items (spec_sections None 0 (rs1 ++ r :: rest)) _) as [[b1|e1]|p1];
  destruct (build_items (spec_sections None 0 (rs1 ++ rest)) _) as [[b2|e2]|p2]; cbn [forget_b] in Hb |- *; try discriminate; try congruence.
Qed.

Theorem padding_both rs1 f1 r rest : spec_sections None 0 rs1 = map Ok f1 -> classify r = RBlank ->
  map forget_ln (spec_sections None 0 (rs1 ++ r :: rest)) = map forget_ln (spec_sections None 0 (rs1 ++ rest)) /\
  forget_b (build_reads (rs1 ++ r :: rest)) = forget_b (build_reads (rs1 ++ rest)).
Proof. intros H Hr. split; [exact (padding_anywhere rs1 f1 r rest H Hr)|exact (build_padding_anywhere rs1 f1 r rest H Hr)]. Qed.

(** a decidable sufficient condition for [line_ok], for the examples *)
Require Import CF.Proofs.Utf8Facts.
Definition plain_byte (b : N) : bool := (b <? 128) && negb (b =? LF) && negb (b =? CR).
Lemma plain_lines_ok eol ls : eol = [LF] \/ eol = [CR; LF] -> forallb (forallb plain_byte) ls = true -> Forall (line_ok eol) ls.
Proof.
  intros He H. rewrite forallb_forall in H. apply Forall_forall. intros l Hl. apply ascii_line_ok; [exact He|].
  specialize (H l Hl). rewrite forallb_forall in H. apply Forall_forall. intros b Hb. specialize (H b Hb).
  unfold plain_byte in H. unfold LF, CR in *. lia.
Qed.
