(** Concrete objects used by the non-vacuity Examples of the Props files. *)
Require Import CF.Proofs.Tac CF.Model.Omics CF.Model.Pair CF.Model.Records CF.Model.Sections CF.Model.Machine
  CF.Proofs.RecordsFacts CF.Proofs.MachineFacts.

Definition ex_seq (n : N) (sz : N) (st : strand) (a b : N) : seqrec :=
  {| sname := [n]; ssize := sz; sstrand := st; sstart := a; send := b |}.
Definition ex_rec (s : N) (g : option (N * N)) : drec :=
  match g with
  | Some (dt, dq) => {| dsize := s; ddt := Some dt; ddq := Some dq; dterm := false |}
  | None => {| dsize := s; ddt := None; ddq := None; dterm := true |}
  end.
(** two chains on reference contig "a": (+ to -) with a gap, and (- to +) *)
Definition ex_file : list section :=
  [ {| shdr := {| hscore := 0; href := ex_seq 97 20 Pos 2 14; hqry := ex_seq 98 30 Neg 0 11; hid := 1 |};
       sdata := [ex_rec 4 (Some (3, 2)); ex_rec 5 None] |};
    {| shdr := {| hscore := 0; href := ex_seq 97 20 Neg 1 7; hqry := ex_seq 99 9 Pos 3 9; hid := 2 |};
       sdata := [ex_rec 6 None] |} ].
Lemma ex_file_ok : Forall sec_ok ex_file.
Proof. repeat constructor; cbn; unfold U64MAX; lia. Qed.
Definition ex_iv : ival := {| ictg := [97]; istr := Pos; ia := 4; ib := 11 |}.
