(** L2: the (fused) step-through in closed form, in offsets into the header intervals. *)
Require Import CF.Proofs.Tac CF.Model.Omics CF.Model.Pair CF.Model.Records CF.Model.Sections CF.Model.StepThrough
  CF.Proofs.OmicsFacts.

Definition gap (o : option N) : N := match o with Some g => g | None => 0 end.

(** The specification: block k starts at offsets (o_k, p_k) into the reference/query header
    intervals R, Q; a move fails exactly when an offset would leave the [room] of its interval. *)
Fixpoint spec_run (R Q : ival) (o p : N) (rs : list drec) : list stitem :=
  match rs with
  | [] => if (o =? len R) && (p =? len Q) then [] else [Err Misaligned]
  | c :: rest =>
    let n := dsize c in
    if room R <? o + n then [Err (OOB 1)]
    else if room Q <? p + n then [Err (OOB 2)]
    else if room Q <? p + n + gap (ddq c) then [Err (OOB 3)]
    else if room R <? o + n + gap (ddt c) then [Err (OOB 4)]
    else Ok ({| pref := sub R o (o + n); pqry := sub Q p (p + n) |}, c)
         :: spec_run R Q (o + n + gap (ddt c)) (p + n + gap (ddq c)) rest
  end.

Definition at_offs (R Q : ival) (o p : N) (rs : list drec) : st :=
  {| rp := pt R o; rend := iend R; qp := pt Q p; qend := iend Q; recs := rs; finished := false; failed := false |}.

Lemma st_drain_S f s : st_drain (S f) s = match st_next s with
           | (None, _) => ([], true)
           | (Some it, s') => let '(l, e) := st_drain f s' in (it :: l, e)
           end.
Proof. reflexivity. Qed.
Lemma st_drain_failed fuel s : failed s = true -> (0 < fuel)%nat -> st_drain fuel s = ([], true).
Proof. intros E Hf. destruct fuel; [lia|]. cbn [st_drain]. unfold st_next. rewrite E. reflexivity. Qed.

Theorem st_closed (R Q : ival) : wf_ival R -> wf_ival Q -> in_u64 R -> in_u64 Q ->
  forall rs o p fuel, o <= room R -> p <= room Q -> (length rs + 1 < fuel)%nat ->
    st_drain fuel (at_offs R Q o p rs) = (spec_run R Q o p rs, true).
Proof.
  intros HR HQ UR UQ. induction rs as [|c rest IH]; intros o p fuel Ho Hp Hf.
  - destruct fuel as [|fuel]; cbn [length] in Hf; try lia.
    rewrite st_drain_S. cbn [spec_run]. unfold st_next, at_offs; cbn [failed]. unfold st_step; cbn [recs rp rend qp qend failed finished].
    rewrite !pt_eq_end by assumption.
    destruct (o =? len R) eqn:E1; cbn [negb andb].
    + destruct (p =? len Q) eqn:E2; cbn [negb].
      * reflexivity.
      * rewrite st_drain_failed by (cbn; lia). reflexivity.
    + rewrite st_drain_failed by (cbn; lia). reflexivity.
  - destruct fuel as [|fuel]; cbn [length] in Hf; [lia|].
    rewrite st_drain_S. cbn [spec_run]. unfold st_next, at_offs; cbn [failed]. unfold st_step, set_ptrs; cbn [recs rp rend qp qend failed finished].
    rewrite (move_forward_room R) by assumption.
    destruct (room R <? o + dsize c) eqn:E1.
    { rewrite st_drain_failed by (cbn; lia). reflexivity. }
    rewrite try_new_room by lia.
    rewrite (move_forward_room Q) by assumption.
    destruct (room Q <? p + dsize c) eqn:E2.
    { rewrite st_drain_failed by (cbn; lia). reflexivity. }
    rewrite try_new_room by lia.
    assert (Hq: (match ddq c with Some dq => move_forward (pt Q (p + dsize c)) dq | None => Some (pt Q (p + dsize c)) end)
                = if room Q <? p + dsize c + gap (ddq c) then None else Some (pt Q (p + dsize c + gap (ddq c)))).
    { destruct (ddq c) as [dq|]; cbn [gap].
      - apply move_forward_room; [assumption|lia].
      - destruct (room Q <? p + dsize c + 0) eqn:F; [lia|]. do 2 f_equal; lia. }
    rewrite Hq. destruct (room Q <? p + dsize c + gap (ddq c)) eqn:E3.
    { rewrite st_drain_failed by (cbn; lia). reflexivity. }
    assert (Hr: (match ddt c with Some dt => move_forward (pt R (o + dsize c)) dt | None => Some (pt R (o + dsize c)) end)
                = if room R <? o + dsize c + gap (ddt c) then None else Some (pt R (o + dsize c + gap (ddt c)))).
    { destruct (ddt c) as [dt|]; cbn [gap].
      - apply move_forward_room; [assumption|lia].
      - destruct (room R <? o + dsize c + 0) eqn:F; [lia|]. do 2 f_equal; lia. }
    rewrite Hr. destruct (room R <? o + dsize c + gap (ddt c)) eqn:E4.
    { rewrite st_drain_failed by (cbn; lia). reflexivity. }
    unfold pair_try_new. rewrite !len_sub_room by (assumption || lia).
    replace (o + dsize c - o =? p + dsize c - p) with true by lia. cbn [negb].
    fold (at_offs R Q (o + dsize c + gap (ddt c)) (p + dsize c + gap (ddq c)) rest).
    rewrite IH by lia. reflexivity.
Qed.

(** completes without error  <->  the records add up to both extents *)
Fixpoint tot (f : drec -> option N) (rs : list drec) : N :=
  match rs with [] => 0 | c :: r => dsize c + gap (f c) + tot f r end.
Definition is_ok (it : stitem) : bool := match it with Ok _ => true | Err _ => false end.
Definition no_err (l : list stitem) : bool := forallb is_ok l.

Lemma spec_run_past_R R Q rs : forall o p, len R < o -> no_err (spec_run R Q o p rs) = false.
Proof.
  induction rs as [|c r IHr]; intros o p Hlt; cbn [spec_run].
  - destruct (o =? len R) eqn:E, (p =? len Q); cbn; try reflexivity; lia.
  - repeat (match goal with |- context [if ?b then _ else _] => destruct b end; cbn [no_err forallb andb is_ok]; try reflexivity).
    apply IHr. lia.
Qed.
Lemma spec_run_past_Q R Q rs : forall o p, len Q < p -> no_err (spec_run R Q o p rs) = false.
Proof.
  induction rs as [|c r IHr]; intros o p Hlt; cbn [spec_run].
  - destruct (o =? len R), (p =? len Q) eqn:E; cbn; try reflexivity; lia.
  - repeat (match goal with |- context [if ?b then _ else _] => destruct b end; cbn [no_err forallb andb is_ok]; try reflexivity).
    apply IHr. lia.
Qed.

Theorem complete_iff (R Q : ival) : wf_ival R -> wf_ival Q -> in_u64 R -> in_u64 Q ->
  forall rs o p, o <= len R -> p <= len Q ->
   (no_err (spec_run R Q o p rs) = true <-> o + tot ddt rs = len R /\ p + tot ddq rs = len Q).
Proof.
  intros HR HQ UR UQ. pose proof (len_le_room R HR UR) as LR. pose proof (len_le_room Q HQ UQ) as LQ.
  induction rs as [|c rest IH]; intros o p Ho Hp; cbn [spec_run tot].
  - destruct (o =? len R) eqn:E1, (p =? len Q) eqn:E2; cbn [andb no_err forallb is_ok]; split; intros; try lia; try discriminate.
  - destruct (room R <? o + dsize c) eqn:E1; [cbn; split; [discriminate|lia]|].
    destruct (room Q <? p + dsize c) eqn:E2; [cbn; split; [discriminate|lia]|].
    destruct (room Q <? p + dsize c + gap (ddq c)) eqn:E3; [cbn; split; [discriminate|lia]|].
    destruct (room R <? o + dsize c + gap (ddt c)) eqn:E4; [cbn; split; [discriminate|lia]|].
    cbn [no_err forallb andb is_ok]. fold (no_err (spec_run R Q (o + dsize c + gap (ddt c)) (p + dsize c + gap (ddq c)) rest)).
    destruct (o + dsize c + gap (ddt c) <=? len R) eqn:F1.
    + destruct (p + dsize c + gap (ddq c) <=? len Q) eqn:F2.
      * rewrite IH by lia. lia.
      * split; [|lia]. intros Hn. exfalso. rewrite spec_run_past_Q in Hn by lia. discriminate.
    + split; [|lia]. intros Hn. exfalso. rewrite spec_run_past_R in Hn by lia. discriminate.
Qed.

(** Shape of every run: Ok items followed by at most one Err, which is last. *)
Lemma spec_run_shape R Q rs : forall o p,
  exists oks tail, spec_run R Q o p rs = map Ok oks ++ tail /\ (tail = [] \/ exists e, tail = [Err e]).
Proof.
  induction rs as [|c r IH]; intros o p; cbn [spec_run].
  - destruct ((o =? len R) && (p =? len Q)); [exists [], []|exists [], [Err Misaligned]]; split; auto; right; eexists; reflexivity.
  - destruct (room R <? o + dsize c); [eexists [], [_]; split; [reflexivity|right; eexists; reflexivity]|].
    destruct (room Q <? p + dsize c); [eexists [], [_]; split; [reflexivity|right; eexists; reflexivity]|].
    destruct (room Q <? p + dsize c + gap (ddq c)); [eexists [], [_]; split; [reflexivity|right; eexists; reflexivity]|].
    destruct (room R <? o + dsize c + gap (ddt c)); [eexists [], [_]; split; [reflexivity|right; eexists; reflexivity]|].
    destruct (IH (o + dsize c + gap (ddt c)) (p + dsize c + gap (ddq c))) as (oks & tail & E & Ht).
    eexists (_ :: oks), tail. rewrite E. split; [reflexivity|exact Ht].
Qed.

Lemma spec_run_length R Q rs : forall o p, (length (spec_run R Q o p rs) <= length rs + 1)%nat.
Proof.
  induction rs as [|c r IH]; intros o p; cbn [spec_run].
  - destruct ((o =? len R) && (p =? len Q)); cbn; lia.
  - repeat (match goal with |- context [if ?b then _ else _] => destruct b end; [cbn; lia|]).
    cbn [length]. specialize (IH (o + dsize c + gap (ddt c)) (p + dsize c + gap (ddq c))). lia.
Qed.

(** closed form of the k-th yielded pair: offsets are the running sums of size+gap *)
Lemma spec_run_nth R Q rs : forall o p k pr c,
  nth_error (spec_run R Q o p rs) k = Some (Ok (pr, c)) ->
  nth_error rs k = Some c /\
  pr = {| pref := sub R (o + tot ddt (firstn k rs)) (o + tot ddt (firstn k rs) + dsize c);
          pqry := sub Q (p + tot ddq (firstn k rs)) (p + tot ddq (firstn k rs) + dsize c) |}.
Proof.
  induction rs as [|c0 r IH]; intros o p k pr c; cbn [spec_run].
  - destruct ((o =? len R) && (p =? len Q)); destruct k as [|[|k]]; cbn; discriminate.
  - destruct (room R <? o + dsize c0); [destruct k as [|[|k]]; cbn; discriminate|].
    destruct (room Q <? p + dsize c0); [destruct k as [|[|k]]; cbn; discriminate|].
    destruct (room Q <? p + dsize c0 + gap (ddq c0)); [destruct k as [|[|k]]; cbn; discriminate|].
    destruct (room R <? o + dsize c0 + gap (ddt c0)); [destruct k as [|[|k]]; cbn; discriminate|].
    destruct k as [|k].
    + cbn [nth_error firstn tot]. intros [= <- <-]. split; [reflexivity|]. f_equal; f_equal; lia.
    + cbn [nth_error firstn tot]. intros H. apply IH in H as [H1 ->]. split; [exact H1|].
      f_equal; f_equal; lia.
Qed.

(** the records of the Ok items are the records, in order *)
Lemma spec_run_records R Q rs : forall o p, no_err (spec_run R Q o p rs) = true ->
  map (fun it => match it with Ok (_, c) => Some c | Err _ => None end) (spec_run R Q o p rs) = map Some rs.
Proof.
  induction rs as [|c r IH]; intros o p; cbn [spec_run].
  - destruct ((o =? len R) && (p =? len Q)); cbn; [reflexivity|discriminate].
  - repeat (match goal with |- context [if ?b then _ else _] => destruct b end; [cbn; discriminate|]).
    cbn [no_err forallb is_ok andb map]. intros H. f_equal. apply IH. exact H.
Qed.

Require Import CF.Proofs.RecordsFacts.
(** the step-through of a section with a well-formed header starts at offset 0 of both header intervals *)
Lemma st_new_closed sec : hdr_ok (shdr sec) ->
  st_new sec = Ok (at_offs (seq_ival (href (shdr sec))) (seq_ival (hqry (shdr sec))) 0 0 (sdata sec)).
Proof.
  intros [Hr Hq]. unfold st_new.
  destruct (seq_interval_closed _ Hr) as (-> & _). destruct (seq_interval_closed _ Hq) as (-> & _).
  unfold at_offs. rewrite !istart_pt. reflexivity.
Qed.

Theorem st_section_closed sec fuel : hdr_ok (shdr sec) -> (length (sdata sec) + 1 < fuel)%nat ->
  exists s0, st_new sec = Ok s0 /\
    st_drain fuel s0 = (spec_run (seq_ival (href (shdr sec))) (seq_ival (hqry (shdr sec))) 0 0 (sdata sec), true).
Proof.
  intros Hh Hf. rewrite st_new_closed by assumption. eexists; split; [reflexivity|].
  destruct Hh as [Hr Hq].
  destruct (seq_interval_closed _ Hr) as (_ & W1 & U1 & _). destruct (seq_interval_closed _ Hq) as (_ & W2 & U2 & _).
  apply st_closed; auto; lia.
Qed.

(** once an error has been reported nothing further is yielded *)
Lemma st_next_fused s e s' : st_next s = (Some (Err e), s') -> st_next s' = (None, s').
Proof.
  unfold st_next. destruct (failed s) eqn:F; [discriminate|].
  destruct (st_step s) as [[[x|e0]|] s1]; try discriminate.
  - intros [= <- <-]. reflexivity.
Qed.
Lemma st_next_failed_stays s : failed s = true -> st_next s = (None, s).
Proof. intros F. unfold st_next. rewrite F. reflexivity. Qed.
