(** Shared proof prelude. *)
From Coq Require Export NArith List Lia ZifyN ZifyBool ZifyNat Bool.
Require Export CF.Model.Base.
Open Scope N_scope.

Lemma bytes_eqb_refl a : bytes_eqb a a = true.
Proof. induction a as [|x a IH]; cbn [bytes_eqb]; [reflexivity|]. rewrite IH. rewrite N.eqb_refl. reflexivity. Qed.
Lemma bytes_eqb_eq a b : bytes_eqb a b = true <-> a = b.
Proof.
  split; [|intros ->; apply bytes_eqb_refl].
  revert b. induction a as [|x a IH]; intros [|y b]; cbn [bytes_eqb]; try discriminate; [reflexivity|].
  intros H. apply andb_true_iff in H as [H1 H2]. apply N.eqb_eq in H1. f_equal; auto.
Qed.
Lemma bytes_eqb_neq a b : bytes_eqb a b = false <-> a <> b.
Proof.
  split.
  - intros H E. subst. rewrite bytes_eqb_refl in H. discriminate.
  - intros H. destruct (bytes_eqb a b) eqn:E; [|reflexivity]. apply bytes_eqb_eq in E. contradiction.
Qed.
Lemma contig_eqb_refl c : contig_eqb c c = true. Proof. apply bytes_eqb_refl. Qed.
Lemma contig_eqb_eq a b : contig_eqb a b = true <-> a = b. Proof. apply bytes_eqb_eq. Qed.
Lemma strand_eqb_refl s : strand_eqb s s = true. Proof. destruct s; reflexivity. Qed.
Lemma strand_eqb_eq a b : strand_eqb a b = true <-> a = b.
Proof. destruct a, b; cbn; split; intros; congruence. Qed.
