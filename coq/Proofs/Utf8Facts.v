(** UTF-8 validity of concatenations and of the printed lines (removes the validity hypothesis on printed lines). *)
From Coq Require Import Wf_nat.
Require Import CF.Proofs.Tac CF.Model.Text CF.Model.Records CF.Model.Reader CF.Model.Sections CF.Proofs.RecordsFacts CF.Proofs.TextFacts
  CF.Proofs.FileFacts.

Lemma utf8_valid_app a : utf8_valid a = true -> forall b, utf8_valid (a ++ b) = utf8_valid b.
Proof.
  remember (length a) as n eqn:En. revert a En. induction n as [n IH] using lt_wf_ind. intros a En Ha b.
  destruct a as [|b0 r0]; [reflexivity|]. cbn [app]. cbn [utf8_valid] in Ha |- *.
  destruct (b0 <? 128). { apply (IH (length r0)); [subst; cbn; lia|reflexivity|exact Ha]. }
  destruct r0 as [|b1 r1]; [discriminate|]. cbn [app].
  destruct ((194 <=? b0) && (b0 <=? 223)).
  { apply andb_true_iff in Ha as [Hc Hr]. rewrite Hc. cbn [andb]. apply (IH (length r1)); [subst; cbn; lia|reflexivity|exact Hr]. }
  destruct r1 as [|b2 r2]; [discriminate|]. cbn [app].
  destruct (b0 =? 224).
  { apply andb_true_iff in Ha as [Hc Hr]. rewrite Hc. cbn [andb]. apply (IH (length r2)); [subst; cbn; lia|reflexivity|exact Hr]. }
  destruct (((225 <=? b0) && (b0 <=? 236)) || (b0 =? 238) || (b0 =? 239)).
  { apply andb_true_iff in Ha as [Hc Hr]. rewrite Hc. cbn [andb]. apply (IH (length r2)); [subst; cbn; lia|reflexivity|exact Hr]. }
  destruct (b0 =? 237).
  { apply andb_true_iff in Ha as [Hc Hr]. rewrite Hc. cbn [andb]. apply (IH (length r2)); [subst; cbn; lia|reflexivity|exact Hr]. }
  destruct r2 as [|b3 r3]; [discriminate|]. cbn [app].
  destruct (b0 =? 240).
  { apply andb_true_iff in Ha as [Hc Hr]. rewrite Hc. cbn [andb]. apply (IH (length r3)); [subst; cbn; lia|reflexivity|exact Hr]. }
  destruct ((241 <=? b0) && (b0 <=? 243)).
  { apply andb_true_iff in Ha as [Hc Hr]. rewrite Hc. cbn [andb]. apply (IH (length r3)); [subst; cbn; lia|reflexivity|exact Hr]. }
  destruct (b0 =? 244).
  { apply andb_true_iff in Ha as [Hc Hr]. rewrite Hc. cbn [andb]. apply (IH (length r3)); [subst; cbn; lia|reflexivity|exact Hr]. }
  discriminate.
Qed.
Lemma utf8_valid_app_true a b : utf8_valid a = true -> utf8_valid b = true -> utf8_valid (a ++ b) = true.
Proof. intros Ha Hb. rewrite utf8_valid_app by exact Ha. exact Hb. Qed.

Lemma ascii_valid l : Forall (fun b => b < 128) l -> utf8_valid l = true.
Proof.
  induction l as [|b r IH]; intros H; [reflexivity|]. inversion H as [|? ? Hb Hr]; subst. cbn [utf8_valid].
  destruct (b <? 128) eqn:E; [apply IH; exact Hr|lia].
Qed.
Lemma digits_ascii n : n <= U64MAX -> Forall (fun b => b < 128) (print_u64 n).
Proof.
  intros Hn. destruct (print_u64_digits n Hn) as (_ & Hall & _). eapply Forall_impl; [|exact Hall]. cbn beta.
  unfold is_digit. intros b Hb. lia.
Qed.
Lemma print_u64_valid n : n <= U64MAX -> utf8_valid (print_u64 n) = true.
Proof. intros H. apply ascii_valid, digits_ascii. exact H. Qed.

Require Import CF.Proofs.EolFacts CF.Proofs.SectionsFacts CF.Model.Machine CF.Proofs.MachineFacts.

(** what a contig name must satisfy for its header line to survive re-serialisation: no LF, valid UTF-8
    (no space is already part of [hdr_full_ok]) *)
Definition name_ok (nm : bytes) : Prop := ~ In LF nm /\ utf8_valid nm = true.
Definition sec_names_ok (sec : section) : Prop := name_ok (sname (href (shdr sec))) /\ name_ok (sname (hqry (shdr sec))).

Lemma eol_valid eol : eol = [LF] \/ eol = [CR; LF] -> utf8_valid eol = true.
Proof. intros [->| ->]; reflexivity. Qed.

Lemma ascii_line_ok eol l : eol = [LF] \/ eol = [CR; LF] -> Forall (fun b => b < 128 /\ b <> LF /\ b <> CR) l -> line_ok eol l.
Proof.
  intros He H. unfold line_ok. split; [|split].
  - intros Hin. rewrite Forall_forall in H. destruct (H _ Hin) as (_ & Hn & _). contradiction.
  - apply utf8_valid_app_true; [apply ascii_valid; eapply Forall_impl; [|exact H]; cbn beta; tauto|apply eol_valid; exact He].
  - intros l0 E. rewrite Forall_forall in H. destruct (H CR) as (_ & _ & Hc); [rewrite E; apply in_or_app; right; left; reflexivity|contradiction].
Qed.

Lemma digits_plain n : n <= U64MAX -> Forall (fun b => b < 128 /\ b <> LF /\ b <> CR) (print_u64 n).
Proof.
  intros Hn. destruct (print_u64_digits n Hn) as (_ & Hall & _). eapply Forall_impl; [|exact Hall]. cbn beta.
  unfold is_digit, LF, CR. intros b Hb. lia.
Qed.

Lemma drec_line_ok eol d : eol = [LF] \/ eol = [CR; LF] -> drec_full_ok d -> line_ok eol (print_drec_text d).
Proof.
  intros He [Hs Hk]. apply ascii_line_ok; [exact He|]. unfold print_drec_text, print_drec. destruct (dterm d).
  - apply digits_plain. exact Hs.
  - destruct Hk as (x & y & -> & -> & Hx & Hy).
    assert (Ht: TAB < 128 /\ TAB <> LF /\ TAB <> CR) by (unfold TAB, LF, CR; lia).
    apply Forall_app; split; [apply digits_plain; exact Hs|]. constructor; [exact Ht|].
    apply Forall_app; split; [apply digits_plain; exact Hx|]. constructor; [exact Ht|apply digits_plain; exact Hy].
Qed.

Lemma last_digit n : n <= U64MAX -> exists ds d, print_u64 n = ds ++ [d] /\ is_digit d = true.
Proof.
  intros Hn. destruct (print_u64_digits n Hn) as (Hne & Hall & _).
  destruct (exists_last Hne) as (ds & d & E). exists ds, d. split; [exact E|]. rewrite E in Hall. apply Forall_app in Hall as [_ H].
  inversion H; assumption.
Qed.

Lemma in_join d fs x : In x (join d fs) -> x = d \/ exists f, In f fs /\ In x f.
Proof.
  induction fs as [|f r IH]; [intros []|]. destruct r as [|g r'].
  - cbn [join]. intros H. right. exists f. split; [left; reflexivity|exact H].
  - change (join d (f :: g :: r')) with (f ++ d :: join d (g :: r')). intros H. apply in_app_or in H as [H|[H|H]].
    + right. exists f. split; [left; reflexivity|exact H].
    + left. symmetry. exact H.
    + destruct (IH H) as [->|(f0 & Hf0 & Hx)]; [left; reflexivity|right; exists f0; split; [right; exact Hf0|exact Hx]].
Qed.
Lemma valid_join fs : Forall (fun f => utf8_valid f = true) fs -> utf8_valid (join SP fs) = true.
Proof.
  induction fs as [|f r IH]; intros H; [reflexivity|]. inversion H as [|? ? Hf Hr]; subst. destruct r as [|g r'].
  - exact Hf.
  - change (join SP (f :: g :: r')) with (f ++ SP :: join SP (g :: r')). apply utf8_valid_app_true; [exact Hf|].
    cbn [utf8_valid]. apply IH. exact Hr.
Qed.

Lemma header_fields_ok h : hdr_full_ok h -> name_ok (sname (href h)) -> name_ok (sname (hqry h)) ->
  Forall (fun f => ~ In LF f /\ utf8_valid f = true) (header_fields h).
Proof.
  intros ([Hr Hrn] & [Hq Hqn] & Hs & Hi) N1 N2. pose proof Hr as (R1 & R2 & R3). pose proof Hq as (Q1 & Q2 & Q3).
  assert (Hplain: forall n, n <= U64MAX -> ~ In LF (print_u64 n) /\ utf8_valid (print_u64 n) = true).
  { intros n Hn. split; [|apply print_u64_valid; exact Hn]. intros Hin. pose proof (digits_plain n Hn) as Hp. rewrite Forall_forall in Hp.
    destruct (Hp _ Hin) as (_ & Hx & _). contradiction. }
  assert (Hst: forall s, ~ In LF (print_strand s) /\ utf8_valid (print_strand s) = true).
  { intros s. destruct s; cbn; split; try reflexivity; unfold PLUS, MINUS, LF; intros [H|[]]; lia. }
  assert (Hch: ~ In LF CHAIN /\ utf8_valid CHAIN = true).
  { split; [|reflexivity]. unfold CHAIN, LF. cbn. intros H. repeat (destruct H as [H|H]; [lia|]). exact H. }
  unfold header_fields.
  repeat (apply Forall_cons; [first [exact Hch | apply Hplain; lia | apply Hst | exact N1 | exact N2]|]). constructor.
Qed.

Lemma header_line_ok eol h : eol = [LF] \/ eol = [CR; LF] -> hdr_full_ok h ->
  name_ok (sname (href h)) -> name_ok (sname (hqry h)) -> line_ok eol (print_header h).
Proof.
  intros He Hh N1 N2. pose proof (header_fields_ok h Hh N1 N2) as Hf. destruct Hh as (_ & _ & _ & Hi).
  unfold line_ok. split; [|split].
  - rewrite print_header_join. intros Hin. apply in_join in Hin as [H|(f & Hfin & Hx)]; [unfold LF, SP in H; lia|].
    rewrite Forall_forall in Hf. destruct (Hf f Hfin) as [Hn _]. contradiction.
  - rewrite print_header_join. apply utf8_valid_app_true; [|apply eol_valid; exact He].
    apply valid_join. eapply Forall_impl; [|exact Hf]. cbn beta. tauto.
  - intros l0 E. destruct (last_digit (hid h) Hi) as (ds & d & Ed & Hd).
    unfold print_header in E. rewrite Ed in E.
    assert (E2: exists pre, CHAIN ++ SP :: print_u64 (hscore h) ++ SP :: print_seq (href h) ++ SP :: print_seq (hqry h) ++ SP :: ds ++ [d] = pre ++ [d]).
    { exists (CHAIN ++ SP :: print_u64 (hscore h) ++ SP :: print_seq (href h) ++ SP :: print_seq (hqry h) ++ SP :: ds).
      repeat (rewrite <- ?app_assoc; cbn [app]). reflexivity. }
    destruct E2 as [pre E2]. rewrite E2 in E. apply app_inj_tail in E as [_ E]. subst d. unfold is_digit, CR in Hd. lia.
Qed.

Lemma sec_lines_ok eol sec : eol = [LF] \/ eol = [CR; LF] -> sec_proper sec -> sec_names_ok sec -> Forall (line_ok eol) (sec_lines sec).
Proof.
  intros He (Hh & Hd & _) [N1 N2]. unfold sec_lines. constructor; [apply header_line_ok; assumption|].
  apply Forall_app. split.
  - rewrite Forall_forall in *. intros l Hl. apply in_map_iff in Hl as (d & <- & Hin). apply drec_line_ok; [exact He|apply Hd; exact Hin].
  - constructor; [|constructor]. apply ascii_line_ok; [exact He|constructor].
Qed.

(** C03: every canonical file is accepted - for every list of proper sections whose contig names contain
    no LF and are valid UTF-8 *)
Theorem canonical_accepted eol f : eol = [LF] \/ eol = [CR; LF] -> Forall sec_proper f -> Forall sec_names_ok f ->
  spec_sections None 0 (raw_reads (src_of_bytes (join_lines eol (file_lines f)))) = map Ok f /\
  build (src_of_bytes (join_lines eol (file_lines f))) = build_secs f.
Proof.
  intros He Hp Hn. apply file_bytes_roundtrip; [exact He|exact Hp|].
  unfold file_lines. induction f as [|sec f IH]; cbn [flat_map]; [constructor|].
  inversion Hp; inversion Hn; subst. apply Forall_app. split; [apply sec_lines_ok; assumption|apply IH; assumption].
Qed.
