Require Import CF.Proofs.Tac CF.Model.Omics CF.Model.Pair CF.Model.Machine CF.Model.Conc.
From Coq Require Import PeanoNat.

Section Conc.
Variables (M S : Type) (step : M -> S -> S).

Lemma nth_upd t f (ts : list S) u :
  nth_error (upd t f ts) u = if Nat.eqb t u then option_map f (nth_error ts u) else nth_error ts u.
Proof.
  revert t u. induction ts as [|x r IH]; intros t u; cbn [upd].
  - destruct t; cbn [upd]; destruct (Nat.eqb _ u); destruct u; reflexivity.
  - destruct t as [|t]; destruct u as [|u]; cbn [nth_error Nat.eqb option_map]; try reflexivity. apply IH.
Qed.

Lemma iter_comm n f (x : S) : iter n f (f x) = f (iter n f x).
Proof. revert x. induction n as [|n IH]; intros x; cbn [iter]; [reflexivity|]. rewrite IH. reflexivity. Qed.

(** Schedule independence: what a thread ends up with depends only on how many steps it took. *)
Theorem run_independent m sched : forall (ts : list S) t,
  nth_error (run step m sched ts) t = option_map (iter (count_occ Nat.eq_dec sched t) (step m)) (nth_error ts t).
Proof.
  induction sched as [|u r IH]; intros ts t; cbn [run count_occ].
  - destruct (nth_error ts t); reflexivity.
  - rewrite IH, nth_upd. destruct (Nat.eq_dec u t) as [->|Hne].
    + rewrite Nat.eqb_refl. destruct (nth_error ts t); cbn [option_map iter]; reflexivity.
    + destruct (Nat.eqb u t) eqn:E; [apply Nat.eqb_eq in E; contradiction|reflexivity].
Qed.
End Conc.

Lemma client_iter m qs : forall done n, (length qs <= n)%nat ->
  iter n (client_step m) {| todo := qs; answers := done |} = {| todo := []; answers := done ++ map (liftover m) qs |}.
Proof.
  induction qs as [|q r IH]; intros done n Hn; cbn [map].
  - rewrite app_nil_r. clear Hn. induction n as [|n IHn]; cbn [iter]; [reflexivity|exact IHn].
  - destruct n as [|n]; cbn [length] in Hn; [lia|]. cbn [iter]. unfold client_step at 2. cbn [todo answers].
    rewrite IH by lia. rewrite <- app_assoc. reflexivity.
Qed.

(** Any number of clients sharing one machine, under any interleaving in which client t gets at least
    as many steps as it has queries, end with exactly the sequential answers. *)
Theorem concurrent_equals_sequential m sched (cs : list client) t qs :
  nth_error cs t = Some {| todo := qs; answers := [] |} -> (length qs <= count_occ Nat.eq_dec sched t)%nat ->
  nth_error (run client_step m sched cs) t = Some {| todo := []; answers := map (liftover m) qs |}.
Proof.
  intros Ht Hn. rewrite run_independent, Ht. cbn [option_map]. rewrite client_iter by exact Hn. reflexivity.
Qed.
