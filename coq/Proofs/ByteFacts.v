(** C17 at the byte level: the raw reads of a byte string partition it - every byte is consumed by exactly one read, in order. *)
Require Import CF.Proofs.Tac CF.Model.Text CF.Model.Records CF.Model.Reader CF.Proofs.ReaderFacts CF.Proofs.ChunkFacts.

Lemma chunks_acc_concat b : forall cur, concat (chunks_acc cur b) = rev cur ++ b.
Proof.
  induction b as [|x r IH]; intros cur; cbn [chunks_acc].
  - destruct cur as [|c cur']; [reflexivity|]. cbn [concat]. rewrite !app_nil_r. reflexivity.
  - destruct (x =? LF).
    + cbn [concat]. rewrite IH. cbn [rev app]. rewrite <- app_assoc. reflexivity.
    + rewrite IH. cbn [rev]. rewrite <- app_assoc. reflexivity.
Qed.

Theorem chunks_concat b : concat (chunks b) = b.
Proof. unfold chunks. rewrite chunks_acc_concat. reflexivity. Qed.

(** the number of bytes a read reports as consumed *)
Definition consumed (r : rawres) : N := match r with ROk n _ => n | RErr _ n => n | REof => 0 end.

Lemma consumed_read_of l : consumed (read_of l) = N.of_nat (length l).
Proof. unfold read_of. destruct (negb (utf8_valid l)); reflexivity. Qed.

Fixpoint sumN (l : list N) : N := match l with [] => 0 | x :: r => x + sumN r end.

Lemma sumN_lengths (ls : list bytes) : sumN (map (fun l : bytes => N.of_nat (length l)) ls) = N.of_nat (length (concat ls)).
Proof. induction ls as [|l ls IH]; cbn [map sumN concat]; [reflexivity|]. rewrite IH, app_length. lia. Qed.

(** the byte counts reported by the raw reads of a byte string add up to its length, and the k-th read starts where the
    first k reads ended: read k consumed exactly the k-th raw line [nth k (chunks b)] *)
Theorem raw_reads_consume_all b : sumN (map consumed (raw_reads (src_of_bytes b))) = N.of_nat (length b).
Proof.
  rewrite raw_reads_chunks, map_map. rewrite (map_ext _ (fun l : bytes => N.of_nat (length l)) consumed_read_of).
  rewrite sumN_lengths, chunks_concat. reflexivity.
Qed.

Theorem raw_reads_positions b k : 
  sumN (map consumed (firstn k (raw_reads (src_of_bytes b)))) = N.of_nat (length (concat (firstn k (chunks b)))).
Proof.
  rewrite raw_reads_chunks, <- firstn_map, map_map. rewrite (map_ext _ (fun l : bytes => N.of_nat (length l)) consumed_read_of).
  rewrite firstn_map. apply sumN_lengths.
Qed.

Corollary raw_reads_consume_all_schedule evs : no_fail evs ->
  sumN (map consumed (raw_reads {| pending := []; future := evs |})) = N.of_nat (length (flat evs)).
Proof. intros H. rewrite (raw_reads_schedule evs H). apply raw_reads_consume_all. Qed.
