(** L9: every Panic branch of the model is unreachable (C06). *)
Require Import CF.Proofs.Tac CF.Model.Omics CF.Model.Pair CF.Model.Text CF.Model.Records CF.Model.Reader CF.Model.Sections
  CF.Model.StepThrough CF.Model.Lapper CF.Model.Machine
  CF.Proofs.OmicsFacts CF.Proofs.RecordsFacts CF.Proofs.StepFacts CF.Proofs.SectionsFacts
  CF.Spec.Align CF.Proofs.MachineFacts CF.Proofs.LiftProps CF.Proofs.BuildFacts.

Definition no_panic {A} (o : outcome A) : Prop := exists a, o = Val a.

(** the builder never panics on a section with a parsed header *)
Lemma add_section_no_panic b sec : sec_ok sec -> no_panic (add_section b sec).
Proof.
  intros H. rewrite add_section_closed by assumption. unfold no_panic.
  destruct (dict_update (bqry b) _ _); [|eexists; reflexivity]. destruct (dict_update (bref b) _ _); [|eexists; reflexivity].
  destruct (push_items _ _); eexists; reflexivity.
Qed.

Lemma build_items_no_panic items : Forall (fun it => match it with Ok s => sec_ok s | Err _ => True end) items ->
  forall b, no_panic (build_items items b).
Proof.
  induction items as [|[sec|e] r IH]; intros H b; cbn [build_items].
  - eexists; reflexivity.
  - inversion H as [|? ? Hs Hr]; subst. destruct (add_section_no_panic b sec Hs) as [[b'|e] ->]; [apply IH; exact Hr|eexists; reflexivity].
  - eexists; reflexivity.
Qed.

(** building a machine from any stream of line reads returns a machine or an error *)
Theorem build_reads_no_panic rs : no_panic (build_reads rs).
Proof.
  unfold build_reads, sections_new. rewrite build_loop_grammar by lia.
  destruct (build_items_no_panic (spec_sections None 0 rs) (spec_sections_ok rs None 0 I) {| bhm := []; bref := []; bqry := [] |}) as [[b|e] ->];
    eexists; reflexivity.
Qed.

(** lifting any well-formed interval over any machine that was built returns a value *)
Theorem liftover_no_panic rs m iv : build_reads rs = Val (Ok m) -> wf_ival iv -> no_panic (liftover m iv).
Proof.
  intros Hb Hiv. apply build_reads_ok_inv in Hb as (f & _ & Hf & Hb & _).
  destruct (liftover_multiset f m iv Hf Hb Hiv) as (r & -> & _). eexists; reflexivity.
Qed.

(** the section iterator never panics, from a fresh iterator and from every state it can reach
    (every call leaves it between sections), also after errors *)
Theorem sections_next_no_panic ln rs : exists r it' rest,
  sections_next {| sst := InBetween; sln := ln |} rs = Val (r, it', rest) /\ sst it' = InBetween.
Proof. destruct (next_between ln rs) as (r & it' & rest & E & H & _). eauto. Qed.

(** printing a record the parser or the constructor produced never hits the [expect]s *)
Lemma print_drec_no_panic d : drec_ok d -> no_panic (print_drec d).
Proof.
  unfold drec_ok, print_drec. destruct (dterm d); [intros _; eexists; reflexivity|].
  intros [[x ->] [y ->]]. eexists; reflexivity.
Qed.
Lemma drec_try_new_drec_ok size dt dq term d : drec_try_new size dt dq term = Ok d -> drec_ok d.
Proof.
  unfold drec_try_new, drec_ok. destruct term, dt, dq; try discriminate; intros [= <-]; cbn; eauto.
Qed.
