(** L7: decimal printing/parsing, splitting/joining, and the print/parse round trip (C13). *)
Require Import CF.Proofs.Tac CF.Model.Omics CF.Model.Text CF.Model.Records CF.Proofs.RecordsFacts.

(** ---------- decimal ---------- *)
Lemma parse_digits_app l1 : forall a l2,
  parse_digits a (l1 ++ l2) = match parse_digits a l1 with Some a' => parse_digits a' l2 | None => None end.
Proof.
  induction l1 as [|b r IH]; intros a l2; cbn [app parse_digits]; [reflexivity|].
  destruct (is_digit b); [|reflexivity]. destruct (a * 10 + (b - 48) <=? U64MAX); [apply IH|reflexivity].
Qed.

Lemma print_digits_spec : forall f n acc, n < 10 ^ N.of_nat f -> (0 < f)%nat ->
  exists ds, print_digits f n acc = ds ++ acc /\ ds <> [] /\ Forall (fun b => is_digit b = true) ds /\
    forall a, a * 10 ^ N.of_nat (length ds) + n <= U64MAX -> parse_digits a ds = Some (a * 10 ^ N.of_nat (length ds) + n).
Proof.
  induction f as [|f IH]; intros n acc Hn Hf; [lia|]. cbn [print_digits].
  assert (Hd: is_digit (48 + n mod 10) = true).
  { unfold is_digit. pose proof (N.mod_upper_bound n 10 ltac:(lia)). lia. }
  destruct (n / 10 =? 0) eqn:E.
  - exists [48 + n mod 10]. split; [reflexivity|]. split; [discriminate|]. split; [repeat constructor; exact Hd|].
    intros a Ha. cbn [length parse_digits] in *. rewrite Hd.
    assert (Hn10: n < 10) by (apply N.eqb_eq in E; pose proof (N.div_mod n 10 ltac:(lia)); pose proof (N.mod_upper_bound n 10 ltac:(lia)); lia).
    assert (Hm: n mod 10 = n) by (apply N.mod_small; exact Hn10).
    change (10 ^ N.of_nat 1) with 10 in *. rewrite Hm in *.
    replace (a * 10 + (48 + n - 48)) with (a * 10 + n) by lia.
    destruct (a * 10 + n <=? U64MAX) eqn:F; [reflexivity|lia].
  - assert (Hf': (0 < f)%nat).
    { destruct f; [|lia]. change (10 ^ N.of_nat 1) with 10 in Hn. apply N.eqb_neq in E.
      assert (n / 10 = 0) by (apply N.div_small; exact Hn). contradiction. }
    assert (Hn': n / 10 < 10 ^ N.of_nat f).
    { replace (N.of_nat (S f)) with (N.succ (N.of_nat f)) in Hn by lia. rewrite N.pow_succ_r' in Hn.
      apply N.div_lt_upper_bound; lia. }
    destruct (IH (n / 10) ((48 + n mod 10) :: acc) Hn' Hf') as (ds & E1 & Hne & Hall & Hp).
    exists (ds ++ [48 + n mod 10]). split; [rewrite E1, <- app_assoc; reflexivity|]. split; [destruct ds; discriminate|].
    split; [apply Forall_app; split; [exact Hall|repeat constructor; exact Hd]|].
    intros a Ha. rewrite app_length in Ha. cbn [length] in Ha.
    replace (N.of_nat (length ds + 1)) with (N.succ (N.of_nat (length ds))) in Ha by lia. rewrite N.pow_succ_r' in Ha.
    rewrite app_length. cbn [length]. replace (N.of_nat (length ds + 1)) with (N.succ (N.of_nat (length ds))) by lia.
    rewrite N.pow_succ_r'. set (P := 10 ^ N.of_nat (length ds)) in *.
    pose proof (N.div_mod n 10 ltac:(lia)) as Hdm. pose proof (N.mod_upper_bound n 10 ltac:(lia)) as Hmb.
    rewrite parse_digits_app. rewrite Hp by lia. cbn [parse_digits]. rewrite Hd.
    replace ((a * P + n / 10) * 10 + (48 + n mod 10 - 48)) with (a * (10 * P) + n) by lia.
    destruct (a * (10 * P) + n <=? U64MAX) eqn:F; [reflexivity|lia].
Qed.

Lemma print_u64_digits n : n <= U64MAX ->
  print_u64 n <> [] /\ Forall (fun b => is_digit b = true) (print_u64 n) /\ parse_digits 0 (print_u64 n) = Some n.
Proof.
  intros Hn. unfold print_u64.
  assert (H20: n < 10 ^ N.of_nat 20).
  { unfold U64MAX in Hn. assert (E: 10 ^ N.of_nat 20 = 100000000000000000000) by (vm_compute; reflexivity). rewrite E. lia. }
  destruct (print_digits_spec 20 n [] H20 ltac:(lia)) as (ds & E & Hne & Hall & Hp).
  rewrite E, app_nil_r. split; [exact Hne|]. split; [exact Hall|]. rewrite Hp by lia. f_equal. all: lia.
Qed.

(** C13: parsing a printed number gives the number back *)
Theorem parse_print_u64 n : n <= U64MAX -> parse_u64 (print_u64 n) = Some n.
Proof.
  intros Hn. destruct (print_u64_digits n Hn) as (Hne & Hall & Hp). unfold parse_u64.
  destruct (print_u64 n) as [|b [|c r]] eqn:E; [contradiction| |].
  - inversion Hall as [|? ? Hb _]; subst. rewrite Hb. cbn [parse_digits] in Hp. rewrite Hb in Hp.
    destruct (0 * 10 + (b - 48) <=? U64MAX); [|discriminate]. injection Hp as Hp. f_equal. lia.
  - inversion Hall as [|? ? Hb _]; subst. assert (b =? PLUS = false) as -> by (unfold is_digit, PLUS in *; lia). exact Hp.
Qed.

Lemma digit_not b d : is_digit b = true -> d = SP \/ d = TAB -> b <> d.
Proof. unfold is_digit, SP, TAB. intros H [->| ->]; lia. Qed.
Lemma print_u64_no n d : n <= U64MAX -> d = SP \/ d = TAB -> ~ In d (print_u64 n).
Proof.
  intros Hn Hd Hin. destruct (print_u64_digits n Hn) as (_ & Hall & _). rewrite Forall_forall in Hall.
  apply (digit_not d d (Hall d Hin) Hd). reflexivity.
Qed.

(** ---------- split / join ---------- *)
Lemma split_nodelim d f : ~ In d f -> split d f = [f].
Proof.
  induction f as [|b r IH]; intros H; cbn [split]; [reflexivity|].
  destruct (b =? d) eqn:E; [apply N.eqb_eq in E; subst; exfalso; apply H; left; reflexivity|].
  rewrite IH; [reflexivity|]. intros Hin. apply H. right. exact Hin.
Qed.
Lemma split_app d f r : ~ In d f -> split d (f ++ d :: r) = f :: split d r.
Proof.
  induction f as [|b f' IH]; intros H; cbn [app split].
  - rewrite N.eqb_refl. reflexivity.
  - destruct (b =? d) eqn:E; [apply N.eqb_eq in E; subst; exfalso; apply H; left; reflexivity|].
    rewrite IH; [reflexivity|]. intros Hin. apply H. right. exact Hin.
Qed.
Lemma split_join d fs : fs <> [] -> Forall (fun f => ~ In d f) fs -> split d (join d fs) = fs.
Proof.
  induction fs as [|f r IH]; intros Hne Hall; [contradiction|]. inversion Hall as [|? ? Hf Hr]; subst.
  destruct r as [|g r'].
  - cbn [join]. apply split_nodelim. exact Hf.
  - change (join d (f :: g :: r')) with (f ++ d :: join d (g :: r')). rewrite split_app by exact Hf. f_equal. apply IH; [discriminate|exact Hr].
Qed.
Lemma split_fields_nodelim d s : Forall (fun f => ~ In d f) (split d s).
Proof.
  induction s as [|b r IH]; cbn [split]; [repeat constructor; auto|].
  destruct (b =? d) eqn:E.
  - constructor; [intros []|exact IH].
  - destruct (split d r) as [|f fs]; [repeat constructor; intros [H|[]]; subst; rewrite N.eqb_refl in E; discriminate|].
    inversion IH as [|? ? Hf Hfs]; subst. constructor; [|exact Hfs].
    intros [H|H]; [subst; rewrite N.eqb_refl in E; discriminate|contradiction].
Qed.

(** ---------- records ---------- *)
Lemma parse_print_strand s : parse_strand (print_strand s) = Some s.
Proof. destruct s; reflexivity. Qed.
Lemma print_strand_no d s : d = SP \/ d = TAB -> ~ In d (print_strand s).
Proof. unfold SP, TAB. intros [->| ->]; destruct s; cbn; unfold PLUS, MINUS; intros [H|[]]; lia. Qed.

Definition seq_full_ok (s : seqrec) : Prop := seq_ok s /\ ~ In SP (sname s).
Definition hdr_full_ok (h : header) : Prop :=
  seq_full_ok (href h) /\ seq_full_ok (hqry h) /\ hscore h <= U64MAX /\ hid h <= U64MAX.

Lemma seq_parts_roundtrip s : seq_ok s ->
  seq_try_from_parts (sname s) (print_u64 (ssize s)) (print_strand (sstrand s)) (print_u64 (sstart s)) (print_u64 (send s)) = Ok s.
Proof.
  intros (H1 & H2 & H3). unfold seq_try_from_parts.
  rewrite !parse_print_u64 by lia. rewrite parse_print_strand.
  destruct (send s <? sstart s) eqn:E; [lia|]. destruct s; reflexivity.
Qed.

Definition header_fields (h : header) : list bytes :=
  [CHAIN; print_u64 (hscore h);
   sname (href h); print_u64 (ssize (href h)); print_strand (sstrand (href h)); print_u64 (sstart (href h)); print_u64 (send (href h));
   sname (hqry h); print_u64 (ssize (hqry h)); print_strand (sstrand (hqry h)); print_u64 (sstart (hqry h)); print_u64 (send (hqry h));
   print_u64 (hid h)].
Lemma print_header_join h : print_header h = join SP (header_fields h).
Proof. unfold print_header, print_seq, header_fields. cbn [join]. repeat (rewrite <- ?app_assoc; cbn [app]). reflexivity. Qed.

(** C13: every well-formed header prints to text that parses back to an equal record *)
Theorem parse_print_header h : hdr_full_ok h -> parse_header (print_header h) = Ok h.
Proof.
  intros ([Hr Hrn] & [Hq Hqn] & Hs & Hi). pose proof Hr as (R1 & R2 & R3). pose proof Hq as (Q1 & Q2 & Q3).
  unfold parse_header. rewrite print_header_join, split_join.
  - unfold header_fields. rewrite bytes_eqb_refl. cbn [negb]. rewrite !parse_print_u64 by lia.
    rewrite (seq_parts_roundtrip _ Hr), (seq_parts_roundtrip _ Hq).
    destruct (ssize (href h) <? send (href h)) eqn:E1; [lia|]. destruct (ssize (hqry h) <? send (hqry h)) eqn:E2; [lia|].
    destruct h; reflexivity.
  - discriminate.
  - unfold header_fields. repeat constructor; try (apply print_u64_no; [lia|left; reflexivity]); try (apply print_strand_no; left; reflexivity); auto.
    unfold CHAIN, SP. cbn. intros H. repeat (destruct H as [H|H]; [lia|]). exact H.
Qed.

Lemma parse_header_full_ok s h : parse_header s = Ok h -> hdr_full_ok h.
Proof.
  intros H. pose proof (parse_header_ok s h H) as [Hr Hq]. revert H. unfold parse_header.
  pose proof (split_fields_nodelim SP s) as Hnd.
  destruct (split SP s) as [|p0 [|p1 [|p2 [|p3 [|p4 [|p5 [|p6 [|p7 [|p8 [|p9 [|p10 [|p11 [|p12 [|p13 l]]]]]]]]]]]]]]; try discriminate.
  destruct (bytes_eqb p0 CHAIN); cbn [negb]; [|discriminate].
  destruct (parse_u64 p1) as [sc|] eqn:Es; [|discriminate].
  destruct (seq_try_from_parts p2 p3 p4 p5 p6) as [r|] eqn:Er; [|discriminate].
  destruct (seq_try_from_parts p7 p8 p9 p10 p11) as [q|] eqn:Eq; [|discriminate].
  destruct (parse_u64 p12) as [i|] eqn:Ei; [|discriminate].
  destruct (ssize r <? send r); [discriminate|]. destruct (ssize q <? send q); [discriminate|].
  intros [= <-]. cbn [href hqry] in *. apply seq_try_from_parts_ok in Er as (_ & _ & _ & Nr). apply seq_try_from_parts_ok in Eq as (_ & _ & _ & Nq).
  apply parse_u64_le in Es, Ei.
  assert (N2: ~ In SP p2) by exact (Forall_inv (Forall_inv_tail (Forall_inv_tail Hnd))).
  assert (N7: ~ In SP p7) by exact (Forall_inv (Forall_inv_tail (Forall_inv_tail (Forall_inv_tail (Forall_inv_tail (Forall_inv_tail (Forall_inv_tail (Forall_inv_tail Hnd)))))))).
  unfold hdr_full_ok, seq_full_ok. cbn [href hqry hscore hid]. rewrite Nr, Nq.
  destruct Hr as (?&?&?), Hq as (?&?&?). unfold seq_ok. repeat split; auto.
Qed.

(** C13: an accepted header line prints to text that parses back to the same record, and that text is
    canonical (printing the re-parsed record gives it back byte-identically) *)
Theorem header_roundtrip s h : parse_header s = Ok h ->
  parse_header (print_header h) = Ok h.
Proof. intros H. apply parse_print_header. eapply parse_header_full_ok; eauto. Qed.

Definition drec_full_ok (d : drec) : Prop :=
  dsize d <= U64MAX /\
  if dterm d then ddt d = None /\ ddq d = None
  else exists x y, ddt d = Some x /\ ddq d = Some y /\ x <= U64MAX /\ y <= U64MAX.

Theorem parse_print_drec d : drec_full_ok d -> exists p, print_drec d = Val p /\ parse_drec p = Ok d.
Proof.
  intros [Hs Hk]. unfold print_drec. destruct (dterm d) eqn:T.
  - destruct Hk as [Ht Hq]. eexists. split; [reflexivity|]. unfold parse_drec.
    rewrite split_nodelim by (apply print_u64_no; [lia|right; reflexivity]). rewrite parse_print_u64 by lia.
    cbn [drec_try_new]. destruct d; cbn in *; subst; reflexivity.
  - destruct Hk as (x & y & Ht & Hq & Hx & Hy). rewrite Ht, Hq. eexists. split; [reflexivity|]. unfold parse_drec.
    change (print_u64 (dsize d) ++ TAB :: print_u64 x ++ TAB :: print_u64 y) with (join TAB [print_u64 (dsize d); print_u64 x; print_u64 y]).
    rewrite split_join; [|discriminate|repeat constructor; apply print_u64_no; try lia; right; reflexivity].
    rewrite !parse_print_u64 by lia. cbn [drec_try_new]. destruct d; cbn in *; subst; reflexivity.
Qed.

Lemma parse_drec_full_ok s d : parse_drec s = Ok d -> drec_full_ok d.
Proof.
  unfold parse_drec, drec_full_ok. destruct (split TAB s) as [|p0 [|p1 [|p2 [|p3 l]]]]; try discriminate.
  - destruct (parse_u64 p0) eqn:E0; [|discriminate]. cbn. intros [= <-]. cbn. apply parse_u64_le in E0. auto.
  - destruct (parse_u64 p0) eqn:E0; [|discriminate]. destruct (parse_u64 p1) eqn:E1; [|discriminate]. destruct (parse_u64 p2) eqn:E2; [|discriminate].
    cbn. intros [= <-]. cbn. apply parse_u64_le in E0, E1, E2. split; [exact E0|]. eauto 8.
Qed.

Theorem drec_roundtrip s d : parse_drec s = Ok d -> exists p, print_drec d = Val p /\ parse_drec p = Ok d.
Proof. intros H. apply parse_print_drec. eapply parse_drec_full_ok; eauto. Qed.

(** ---------- lines ---------- *)
Lemma starts_with_chain_print_header h : starts_with CHAIN (print_header h) = true.
Proof. unfold print_header, CHAIN. cbn [app starts_with]. rewrite !N.eqb_refl. reflexivity. Qed.
Lemma print_u64_first n : n <= U64MAX -> exists b r, print_u64 n = b :: r /\ is_digit b = true.
Proof.
  intros Hn. destruct (print_u64_digits n Hn) as (Hne & Hall & _). destruct (print_u64 n) as [|b r]; [contradiction|].
  inversion Hall; subst. eauto.
Qed.

Theorem line_roundtrip s l : parse_line s = Ok l -> exists p, print_line l = Val p /\ parse_line p = Ok l.
Proof.
  unfold parse_line. destruct s as [|c s'].
  - intros [= <-]. exists []. split; reflexivity.
  - destruct (starts_with CHAIN (c :: s')).
    + destruct (parse_header (c :: s')) as [h|e] eqn:E; [|discriminate]. intros [= <-]. cbn [print_line].
      eexists. split; [reflexivity|]. pose proof (header_roundtrip _ _ E) as Hr.
      pose proof (starts_with_chain_print_header h) as Hs.
      destruct (print_header h) as [|x r] eqn:Ep; [cbn in Hs; discriminate|]. rewrite Hs, Hr. reflexivity.
    + destruct (parse_drec (c :: s')) as [d|e] eqn:E; [|discriminate]. intros [= <-]. cbn [print_line].
      destruct (drec_roundtrip _ _ E) as (p & Hp & Hq). exists p. split; [exact Hp|].
      pose proof (parse_drec_full_ok _ _ E) as [Hsz _].
      destruct (print_u64_first (dsize d) Hsz) as (b & r & Eb & Hb).
      assert (Hpb: exists r', p = b :: r').
      { unfold print_drec in Hp. destruct (dterm d); [injection Hp as <-; rewrite Eb; eauto|].
        destruct (ddt d), (ddq d); try discriminate. injection Hp as <-. rewrite Eb. cbn [app]. eauto. }
      destruct Hpb as [r' ->].
      assert (Hnc: starts_with CHAIN (b :: r') = false).
      { unfold CHAIN. cbn [starts_with]. unfold is_digit in Hb. destruct (99 =? b) eqn:F; [lia|reflexivity]. }
      rewrite Hnc, Hq. reflexivity.
Qed.
