(** Bytes as a sequence of raw lines: the reads of a flat source, of a truncated source, of joined lines. *)
Require Import CF.Proofs.Tac CF.Model.Text CF.Model.Records CF.Model.Reader CF.Proofs.ReaderFacts.

(** the raw chunks (terminators included) the reader cuts a byte string into; [cur] = the bytes of the
    current line so far, reversed *)
Fixpoint chunks_acc (cur : bytes) (b : bytes) : list bytes :=
  match b with
  | [] => match cur with [] => [] | _ => [rev cur] end
  | x :: r => if x =? LF then rev (x :: cur) :: chunks_acc [] r else chunks_acc (x :: cur) r
  end.
Definition chunks (b : bytes) : list bytes := chunks_acc [] b.

(** what one raw line read returns for a chunk *)
Definition read_of (l : bytes) : rawres :=
  if negb (utf8_valid l) then RErr IoUtf8 (N.of_nat (length l)) else ROk (N.of_nat (length l)) (strip_eol l).

Lemma chunks_acc_take cur b :
  chunks_acc cur b =
  let '(t, rest, found) := take_line b in
  if found then (rev cur ++ t) :: chunks_acc [] rest
  else match rev cur ++ t with [] => [] | l => [l] end.
Proof.
  revert cur. induction b as [|x r IH]; intros cur; cbn [chunks_acc take_line].
  - rewrite app_nil_r. destruct cur as [|c cur']; [reflexivity|]. cbn [rev]. destruct (rev cur' ++ [c]) eqn:E; [destruct (rev cur'); discriminate|reflexivity].
  - destruct (x =? LF) eqn:E.
    + cbn [rev]. reflexivity.
    + rewrite IH. destruct (take_line r) as [[t rest] found]. cbn [rev]. rewrite <- !app_assoc. cbn [app]. reflexivity.
Qed.

Lemma chunks_nonempty cur b : Forall (fun l => l <> []) (chunks_acc cur b).
Proof.
  revert cur. induction b as [|x r IH]; intros cur; cbn [chunks_acc].
  - destruct cur as [|c cur']; constructor; [|constructor]. cbn [rev]. destruct (rev cur'); discriminate.
  - destruct (x =? LF); [constructor; [cbn [rev]; destruct (rev cur); discriminate|apply IH]|apply IH].
Qed.

(** the reads of a flat byte source are the reads of its chunks *)
Theorem raw_reads_chunks b : raw_reads (src_of_bytes b) = map read_of (chunks b).
Proof.
  unfold raw_reads.
  assert (H: forall n b, (length b < n)%nat -> raw_reads_fuel n (src_of_bytes b) = map read_of (chunks b)).
  { induction n as [|n IH]; intros b0 Hn; [lia|]. cbn [raw_reads_fuel]. unfold read_line_raw, read_until, src_of_bytes. cbn [pending future].
    unfold chunks. rewrite chunks_acc_take. cbn [rev app].
    pose proof (take_line_split b0) as Hs. pose proof (take_line_len b0) as Hl.
    destruct (take_line b0) as [[t rest] found]. destruct Hs as (Hb & Hnf & Hf). destruct found.
    - destruct (Hf eq_refl) as (t0 & -> & _). cbn [map]. unfold read_of at 1.
      assert (Hlen: (length rest < n)%nat) by (rewrite app_length in Hl; cbn in Hl; lia).
      destruct (negb (utf8_valid (t0 ++ [LF]))).
      + f_equal. apply (IH rest). exact Hlen.
      + destruct (t0 ++ [LF]) eqn:E; [destruct t0; discriminate|]. rewrite <- E. f_equal.
        apply (IH rest). exact Hlen.
    - destruct (Hnf eq_refl) as [-> _]. cbn [ru]. destruct t as [|x t'].
      + cbn. reflexivity.
      + cbn [map]. unfold read_of. destruct (negb (utf8_valid (x :: t'))).
        * f_equal. destruct n; reflexivity.
        * f_equal. destruct n; reflexivity. }
  apply H. unfold src_size, src_of_bytes. cbn. lia.
Qed.

(** ---------- truncation at a byte offset ---------- *)
Definition proper_prefix (p c : bytes) : Prop := exists rest, c = p ++ rest /\ rest <> [] /\ p <> [].

Lemma chunks_acc_head cur x r : exists c rest more, chunks_acc cur (x :: r) = c :: rest /\ c = rev cur ++ more /\ more <> [].
Proof.
  revert cur x. induction r as [|y r IH]; intros cur x; cbn [chunks_acc].
  - destruct (x =? LF); cbn [chunks_acc rev].
    + exists (rev cur ++ [x]), [], [x]. split; [reflexivity|]. split; [reflexivity|discriminate].
    + exists (rev cur ++ [x]), [], [x]. split; [|split; [reflexivity|discriminate]].
      destruct (rev cur ++ [x]) eqn:E; [destruct (rev cur); discriminate|]. reflexivity.
  - destruct (x =? LF).
    + cbn [rev]. exists (rev cur ++ [x]), (chunks_acc [] (y :: r)), [x]. repeat split; discriminate.
    + destruct (IH (x :: cur) y) as (c & rest & more & E & -> & Hm). exists (rev (x :: cur) ++ more), rest, (x :: more).
      split; [exact E|]. split; [cbn [rev]; rewrite <- app_assoc; reflexivity|discriminate].
Qed.

Lemma chunks_acc_firstn b : forall cur k, ~ In LF cur ->
  exists i, chunks_acc cur (firstn k b) = firstn i (chunks_acc cur b) \/
            exists p c, nth_error (chunks_acc cur b) i = Some c /\ proper_prefix p c /\ ~ In LF p /\
                        chunks_acc cur (firstn k b) = firstn i (chunks_acc cur b) ++ [p].
Proof.
  induction b as [|x r IH]; intros cur k Hcur.
  - rewrite firstn_nil. exists (length (chunks_acc cur [])). left. rewrite firstn_all. reflexivity.
  - destruct k as [|k].
    + cbn [firstn]. exists 0%nat. destruct cur as [|c0 cur'] eqn:Ec; [left; reflexivity|]. rewrite <- Ec in *.
      right. destruct (chunks_acc_head cur x r) as (c & rest & more & E & Hc & Hm). exists (rev cur), c.
      rewrite E. cbn [nth_error firstn app]. split; [reflexivity|]. split.
      * exists more. repeat split; auto. subst cur. cbn [rev]. destruct (rev cur'); discriminate.
      * split; [intros Hin; apply Hcur; apply in_rev; exact Hin|].
        subst cur. cbn [chunks_acc]. reflexivity.
    + cbn [firstn chunks_acc]. destruct (x =? LF) eqn:E.
      * destruct (IH [] k ltac:(intros [])) as [i [H|(p & c & H1 & H2 & H3 & H4)]].
        -- exists (S i). left. cbn [firstn]. rewrite H. reflexivity.
        -- exists (S i). right. exists p, c. cbn [nth_error firstn app]. rewrite H4. auto.
      * apply IH. intros [H|H]; [subst; rewrite N.eqb_refl in E; discriminate|contradiction].
Qed.

(** the read of a proper prefix of a chunk: nothing is stripped *)
Lemma read_of_prefix p : ~ In LF p -> read_of p = if negb (utf8_valid p) then RErr IoUtf8 (N.of_nat (length p)) else ROk (N.of_nat (length p)) p.
Proof.
  intros H. unfold read_of. destruct (negb (utf8_valid p)); [reflexivity|]. f_equal.
  rewrite strip_eol_rev. destruct (rev p) as [|y r] eqn:Er; [reflexivity|].
  destruct (y =? LF) eqn:E; [|reflexivity]. apply N.eqb_eq in E. subst y. exfalso. apply H. apply in_rev. rewrite Er. left. reflexivity.
Qed.

(** C08, byte level: the reads of a truncated byte string are the first i reads of the whole, possibly
    followed by the read of a non-empty proper prefix of the (i+1)-th raw line *)
Theorem raw_reads_truncated b k :
  exists i, raw_reads (src_of_bytes (firstn k b)) = firstn i (raw_reads (src_of_bytes b)) \/
            exists p c, nth_error (chunks b) i = Some c /\ proper_prefix p c /\ ~ In LF p /\
                        raw_reads (src_of_bytes (firstn k b)) = firstn i (raw_reads (src_of_bytes b)) ++ [read_of p].
Proof.
  rewrite !raw_reads_chunks. unfold chunks. destruct (chunks_acc_firstn b [] k ltac:(intros [])) as [i [H|(p & c & H1 & H2 & H3 & H4)]].
  - exists i. left. rewrite H, firstn_map. reflexivity.
  - exists i. right. exists p, c. repeat split; auto. rewrite H4, map_app, firstn_map. reflexivity.
Qed.

(** ---------- joining lines ---------- *)
(** LF-terminated text lines (no LF inside): the chunks are the lines with their terminator *)
Lemma chunks_join ls : Forall (fun l => ~ In LF l) ls ->
  chunks (concat (map (fun l => l ++ [LF]) ls)) = map (fun l => l ++ [LF]) ls.
Proof.
  unfold chunks. induction ls as [|l ls IH]; intros H; cbn [map concat]; [reflexivity|].
  inversion H as [|? ? Hl Hr]; subst. rewrite chunks_acc_take. rewrite <- app_assoc.
  pose proof (take_line_app l ([LF] ++ concat (map (fun l0 => l0 ++ [LF]) ls))) as Ht.
  pose proof (take_line_split l) as Hs. destruct (take_line l) as [[t rest] found]. destruct Hs as (Hb & Hnf & Hf).
  destruct found.
  - destruct (Hf eq_refl) as (t0 & -> & _). exfalso. apply Hl. rewrite Hb. apply in_or_app. left. apply in_or_app. right. left. reflexivity.
  - destruct (Hnf eq_refl) as [-> _]. rewrite app_nil_r in Hb. subst t. rewrite Ht. cbn [app take_line]. rewrite N.eqb_refl.
    cbn [rev app]. f_equal. apply IH. exact Hr.
Qed.

(** ---------- the number of lines ---------- *)
Fixpoint count_lf (b : bytes) : nat := match b with [] => 0%nat | x :: r => if x =? LF then S (count_lf r) else count_lf r end.
Lemma chunks_acc_length b : forall cur, (length (chunks_acc cur b) <= count_lf b + 1)%nat.
Proof.
  induction b as [|x r IH]; intros cur; cbn [chunks_acc count_lf].
  - destruct cur; cbn; lia.
  - destruct (x =? LF); cbn [length]; [specialize (IH []); lia|apply IH].
Qed.
(** every line iterator over a byte string yields at most one item per input line (LF count + 1) *)
Theorem raw_reads_length b : (length (raw_reads (src_of_bytes b)) <= count_lf b + 1)%nat.
Proof. rewrite raw_reads_chunks, map_length. apply chunks_acc_length. Qed.
