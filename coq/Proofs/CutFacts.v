(** C08: a cut inside a line.  Pieces: (B) the grammar after an error-free prefix, (C) a numeral that is a
    proper prefix of a numeral, (D) trailing empty blocks do not change the machine. *)
Require Import CF.Proofs.Tac CF.Model.Omics CF.Model.Pair CF.Model.Text CF.Model.Records CF.Model.Reader CF.Model.Sections
  CF.Model.StepThrough CF.Model.Lapper CF.Model.Machine
  CF.Proofs.OmicsFacts CF.Proofs.RecordsFacts CF.Proofs.StepFacts CF.Proofs.SectionsFacts CF.Proofs.TextFacts
  CF.Spec.Align CF.Proofs.MachineFacts CF.Proofs.BuildFacts CF.Proofs.PanicFacts CF.Proofs.TruncFacts.

(** ---------- (B) the grammar over an error-free stream, split at any point ---------- *)
(** in an error-free stream, the first section to complete extends the section under construction *)
Lemma spec_sections_extends rs : forall s idx f, spec_sections (Some s) idx rs = map Ok f ->
  exists more f', f = {| shdr := shdr s; sdata := sdata s ++ more |} :: f' /\ more <> [].
Proof.
  induction rs as [|x rest IH]; intros s idx f H; cbn [spec_sections] in H.
  - destruct f; discriminate.
  - destruct (classify x) as [|h|d|e t|e]; try (destruct f; discriminate).
    destruct (dterm d).
    + destruct f as [|s1 f']; [discriminate|]. cbn [map] in H. injection H as H1 H2. exists [d], f'. rewrite <- H1. split; [reflexivity|discriminate].
    + apply IH in H as (more & f' & -> & Hm). cbn [shdr sdata]. exists (d :: more), f'. rewrite <- app_assoc. split; [reflexivity|discriminate].
Qed.

(** the grammar of [rs1 ++ rs2] when [rs1 ++ rs2 ++ ...] is error-free: the sections completed inside rs1,
    then the grammar of rs2 from the state reached *)
Lemma spec_sections_split rs1 : forall cur idx rs2 f, spec_sections cur idx (rs1 ++ rs2) = map Ok f ->
  exists j cur' idx', (forall rs, spec_sections cur idx (rs1 ++ rs) = map Ok (firstn j f) ++ spec_sections cur' idx' rs) /\
                      spec_sections cur' idx' rs2 = map Ok (skipn j f).
Proof.
  induction rs1 as [|x rest IH]; intros cur idx rs2 f H.
  - exists 0%nat, cur, idx. cbn [app firstn skipn map]. split; [reflexivity|exact H].
  - cbn [app spec_sections] in H. destruct (classify x) as [|h|d|e t|e] eqn:C; try (destruct f; discriminate).
    + destruct cur; [destruct f; discriminate|]. destruct (IH None (idx + 1) rs2 f H) as (j & cur' & idx' & H1 & H2).
      exists j, cur', idx'. split; [|exact H2]. intros rs. cbn [app spec_sections]. rewrite C. apply H1.
    + destruct cur; [destruct f; discriminate|]. destruct (IH _ (idx + 1) rs2 f H) as (j & cur' & idx' & H1 & H2).
      exists j, cur', idx'. split; [|exact H2]. intros rs. cbn [app spec_sections]. rewrite C. apply H1.
    + destruct cur as [s|]; [|destruct f; discriminate]. destruct (dterm d) eqn:T.
      * destruct f as [|s1 f']; [discriminate|]. cbn [map] in H. injection H as Hs Hr.
        destruct (IH None (idx + 1) rs2 f' Hr) as (j & cur' & idx' & H1 & H2).
        exists (S j), cur', idx'. split; [|cbn [skipn]; exact H2]. intros rs. cbn [app spec_sections firstn map]. rewrite C, T, Hs. f_equal. apply H1.
      * destruct (IH _ (idx + 1) rs2 f H) as (j & cur' & idx' & H1 & H2).
        exists j, cur', idx'. split; [|exact H2]. intros rs. cbn [app spec_sections]. rewrite C, T. apply H1.
Qed.

(** ---------- (C) numerals ---------- *)
Lemma parse_digits_mono l1 : forall a l2 v v1, parse_digits a (l1 ++ l2) = Some v -> parse_digits a l1 = Some v1 -> v1 <= v.
Proof.
  intros a l2 v v1 H H1. rewrite parse_digits_app, H1 in H. clear H1. revert v1 v H.
  induction l2 as [|b r IH]; intros v1 v; cbn [parse_digits].
  - intros [= <-]. lia.
  - destruct (is_digit b); [|discriminate]. destruct (v1 * 10 + (b - 48) <=? U64MAX) eqn:E; [|discriminate].
    intros H. apply IH in H. lia.
Qed.
Lemma parse_digits_nonempty_or a l v : parse_digits a l = Some v -> a <= v.
Proof. intros H. apply (parse_digits_mono [] a l v a); [exact H|reflexivity]. Qed.

(** a numeral that is a prefix of a numeral denotes at most as much *)
Lemma parse_u64_prefix_le a b v v' : parse_u64 (a ++ b) = Some v -> parse_u64 a = Some v' -> v' <= v.
Proof.
  destruct b as [|y b']; [rewrite app_nil_r; intros H1 H2; rewrite H1 in H2; injection H2 as <-; lia|].
  unfold parse_u64. destruct a as [|x [|x2 a']]; [discriminate| |].
  - (* a = [x] *) cbn [app]. destruct (is_digit x) eqn:Dx; [|discriminate]. intros H [= <-].
    assert (Hp: x =? PLUS = false) by (unfold is_digit, PLUS in *; lia). rewrite Hp in H.
    assert (H1: parse_digits 0 [x] = Some (x - 48)).
    { cbn [parse_digits]. rewrite Dx. destruct (0 * 10 + (x - 48) <=? U64MAX) eqn:E; [f_equal; lia|unfold is_digit, U64MAX in *; lia]. }
    apply (parse_digits_mono [x] 0 (y :: b') v (x - 48) H H1).
  - cbn [app]. destruct (x =? PLUS).
    + intros H H'. eapply (parse_digits_mono (x2 :: a') 0 (y :: b')); eauto.
    + intros H H'. eapply (parse_digits_mono (x :: x2 :: a') 0 (y :: b')); eauto.
Qed.

(** ---------- (D) trailing empty blocks ---------- *)
Lemma tot_zero_sizes f rs : tot f rs = 0 -> Forall (fun c => dsize c = 0) rs.
Proof. induction rs as [|c r IH]; cbn [tot]; intros H; constructor; [lia|apply IH; lia]. Qed.

Lemma push_pairs_zero_blocks h hm : forall t q rs, Forall (fun c => dsize c = 0) rs ->
  push_pairs hm (map (pair_of_block h) (blocks_local t q rs)) = hm.
Proof.
  intros t q rs. revert t q. induction rs as [|c r IH]; intros t q H; cbn [blocks_local map push_pairs fold_left]; [reflexivity|].
  inversion H as [|? ? Hc Hr]; subst. unfold push_pair at 2, nonzero. cbn [pair_of_block pref].
  assert (Hz: count_entities (sub (seq_ival (href h)) (t - sstart (href h)) (t - sstart (href h) + dsize c)) = 0).
  { rewrite Hc, N.add_0_r. unfold count_entities, dist, sub. cbn [ia ib]. lia. }
  rewrite Hz. cbn [negb N.eqb]. replace (0 =? 0) with true by reflexivity. cbn [negb]. apply IH. exact Hr.
Qed.

Lemma blocks_local_app t q rs1 rs2 :
  blocks_local t q (rs1 ++ rs2) = blocks_local t q rs1 ++ blocks_local (t + tot ddt rs1) (q + tot ddq rs1) rs2.
Proof.
  revert t q. induction rs1 as [|c r IH]; intros t q; cbn [app blocks_local tot].
  - rewrite !N.add_0_r. reflexivity.
  - fold (gap (ddt c)). fold (gap (ddq c)). rewrite IH. f_equal. f_equal; f_equal; lia.
Qed.

(** ---------- the grammar sees a stream only through the classification of its reads ---------- *)
Lemma spec_sections_classify rs1 : forall rs2 cur idx, map classify rs1 = map classify rs2 ->
  spec_sections cur idx rs1 = spec_sections cur idx rs2.
Proof.
  induction rs1 as [|x r IH]; intros [|y r2] cur idx H; try discriminate; [reflexivity|].
  cbn [map] in H. injection H as Hx Hr. cbn [spec_sections]. rewrite Hx.
  destruct (classify y); try reflexivity.
  - destruct cur; [reflexivity|apply IH; exact Hr].
  - destruct cur; [reflexivity|apply IH; exact Hr].
  - destruct cur; [|reflexivity]. destruct (dterm d); [f_equal|]; apply IH; exact Hr.
Qed.
Lemma build_reads_classify rs1 rs2 : map classify rs1 = map classify rs2 -> length rs1 = length rs2 -> build_reads rs1 = build_reads rs2.
Proof.
  intros H Hl. unfold build_reads, sections_new. rewrite !build_loop_grammar by lia.
  rewrite (spec_sections_classify rs1 rs2 None 0 H). reflexivity.
Qed.

(** refined: the next line of a section under construction is a data line and the section extends with it *)
Lemma spec_sections_extends_next x rest s idx f : spec_sections (Some s) idx (x :: rest) = map Ok f ->
  exists d more f', classify x = RData d /\ f = {| shdr := shdr s; sdata := sdata s ++ d :: more |} :: f'.
Proof.
  cbn [spec_sections]. destruct (classify x) as [|h|d|e t|e]; try (destruct f; discriminate).
  intros H. exists d. destruct (dterm d).
  - destruct f as [|s1 f']; [discriminate|]. cbn [map] in H. injection H as H1 H2. exists [], f'. rewrite <- H1. auto.
  - apply spec_sections_extends in H as (more & f' & -> & _). cbn [shdr sdata]. exists more, f'. rewrite <- app_assoc. auto.
Qed.

(** ---------- a data line cut to a shorter terminating data line ---------- *)
Lemma split_nonempty d s : split d s <> [].
Proof. destruct s as [|b r]; cbn [split]; [discriminate|]. destruct (b =? d); [discriminate|]. destruct (split d r); discriminate. Qed.
Lemma split_single d s f : split d s = [f] -> f = s /\ ~ In d s.
Proof.
  revert f. induction s as [|b r IH]; intros f; cbn [split].
  - intros [= <-]. split; auto.
  - destruct (b =? d) eqn:E; [intros H; injection H as _ H2; exfalso; eapply split_nonempty; eauto|].
    destruct (split d r) as [|f0 fs] eqn:Es; [exfalso; eapply split_nonempty; eauto|].
    intros [= <- ->]. destruct (IH f0 eq_refl) as [-> Hn]. split; [reflexivity|].
    intros [H|H]; [subst; rewrite N.eqb_refl in E; discriminate|contradiction].
Qed.
Lemma split_prepend d a r : ~ In d a -> split d (a ++ r) = match split d r with f0 :: fs => (a ++ f0) :: fs | [] => [a] end.
Proof.
  induction a as [|b a' IH]; intros H; cbn [app].
  - destruct (split d r) eqn:Es; [exfalso; eapply split_nonempty; eauto|reflexivity].
  - cbn [split]. destruct (b =? d) eqn:E; [apply N.eqb_eq in E; subst; exfalso; apply H; left; reflexivity|].
    rewrite IH by (intros Hin; apply H; right; exact Hin). destruct (split d r); reflexivity.
Qed.

Lemma drec_prefix t' r d d' : parse_drec (t' ++ r) = Ok d -> parse_drec t' = Ok d' -> dterm d' = true -> dsize d' <= dsize d.
Proof.
  intros H H' T. unfold parse_drec in H'.
  destruct (split TAB t') as [|p0 [|p1 [|p2 [|p3 l]]]] eqn:Es; try discriminate.
  - destruct (split_single _ _ _ Es) as [-> Hn].
    destruct (parse_u64 t') as [v'|] eqn:Ev'; [|discriminate]. cbn in H'. injection H' as <-. cbn [dsize].
    unfold parse_drec in H. rewrite split_prepend in H by exact Hn.
    destruct (split TAB r) as [|f0 fs] eqn:Er; [exfalso; eapply split_nonempty; eauto|].
    destruct fs as [|f1 [|f2 [|f3 l]]]; try discriminate.
    + destruct (parse_u64 (t' ++ f0)) as [v|] eqn:Ev; [|discriminate]. cbn in H. injection H as <-. cbn [dsize].
      eapply parse_u64_prefix_le; eauto.
    + destruct (parse_u64 (t' ++ f0)) as [v|] eqn:Ev; [|discriminate].
      destruct (parse_u64 f1); [|discriminate]. destruct (parse_u64 f2); [|discriminate]. cbn in H. injection H as <-. cbn [dsize].
      eapply parse_u64_prefix_le; eauto.
  - destruct (parse_u64 p0); [|discriminate]. destruct (parse_u64 p1); [|discriminate]. destruct (parse_u64 p2); [|discriminate].
    cbn in H'. injection H' as <-. cbn in T. discriminate.
Qed.

(** what [classify] of a non-empty text means *)
Lemma classify_data_parse n t d : classify (ROk n t) = RData d -> parse_drec t = Ok d /\ t <> [].
Proof.
  unfold classify, parse_line. destruct t as [|c t']; [discriminate|]. destruct (starts_with CHAIN (c :: t')).
  - destruct (parse_header (c :: t')); discriminate.
  - destruct (parse_drec (c :: t')) as [d0|]; [|discriminate]. intros [= <-]. split; [reflexivity|discriminate].
Qed.
Lemma classify_blank_text n t : classify (ROk n t) = RBlank -> t = [].
Proof.
  unfold classify, parse_line. destruct t as [|c t']; [reflexivity|]. destruct (starts_with CHAIN (c :: t')).
  - destruct (parse_header (c :: t')); discriminate.
  - destruct (parse_drec (c :: t')); discriminate.
Qed.

(** a line followed by a stray CR never parses *)
Lemma parse_u64_cr s : parse_u64 (s ++ [CR]) = None.
Proof.
  assert (H: forall a l, parse_digits a (l ++ [CR]) = None).
  { intros a l. rewrite parse_digits_app. destruct (parse_digits a l); [|reflexivity]. reflexivity. }
  unfold parse_u64. destruct s as [|b [|c r]]; cbn [app].
  - reflexivity.
  - destruct (b =? PLUS); [reflexivity|]. cbn [parse_digits]. destruct (is_digit b); [|reflexivity].
    destruct (0 * 10 + (b - 48) <=? U64MAX); reflexivity.
  - destruct (b =? PLUS); [apply (H 0 (c :: r))|apply (H 0 (b :: c :: r))].
Qed.
Lemma split_append_last d s c : c <> d -> exists init l, split d s = init ++ [l] /\ split d (s ++ [c]) = init ++ [l ++ [c]].
Proof.
  intros Hc. induction s as [|b r IH]; cbn [app split].
  - assert (c =? d = false) as -> by (apply N.eqb_neq; exact Hc). cbn [split]. exists [], []. split; reflexivity.
  - destruct IH as (init & l & E1 & E2). destruct (b =? d).
    + exists ([] :: init), l. rewrite E1, E2. split; reflexivity.
    + rewrite E1, E2. destruct init as [|f fs]; cbn [app].
      * exists [], (b :: l). split; reflexivity.
      * exists ((b :: f) :: fs), l. split; reflexivity.
Qed.

(** a parsed line followed by a stray CR is unparsable *)
Lemma parse_header_cr t : exists e, parse_header (t ++ [CR]) = Err e.
Proof.
  unfold parse_header. destruct (split_append_last SP t CR ltac:(unfold CR, SP; lia)) as (init & l & E1 & E2). rewrite E2.
  destruct init as [|p0 [|p1 [|p2 [|p3 [|p4 [|p5 [|p6 [|p7 [|p8 [|p9 [|p10 [|p11 [|p12 init']]]]]]]]]]]]]; cbn [app];
    try (eexists; reflexivity).
  - (* exactly 13 fields: the last is [l ++ [CR]] *)
    destruct (negb (bytes_eqb p0 CHAIN)); [eexists; reflexivity|].
    destruct (parse_u64 p1); [|eexists; reflexivity].
    destruct (seq_try_from_parts p2 p3 p4 p5 p6); [|eexists; reflexivity].
    destruct (seq_try_from_parts p7 p8 p9 p10 p11); [|eexists; reflexivity].
    rewrite parse_u64_cr. eexists; reflexivity.
  - destruct init'; cbn [app]; eexists; reflexivity.
Qed.
Lemma parse_drec_cr t : exists e, parse_drec (t ++ [CR]) = Err e.
Proof.
  unfold parse_drec. destruct (split_append_last TAB t CR ltac:(unfold CR, TAB; lia)) as (init & l & E1 & E2). rewrite E2.
  destruct init as [|p0 [|p1 [|p2 init']]]; cbn [app].
  - rewrite parse_u64_cr. eexists; reflexivity.
  - eexists; reflexivity.
  - destruct (parse_u64 p0); [|eexists; reflexivity]. destruct (parse_u64 p1); [|eexists; reflexivity].
    rewrite parse_u64_cr. eexists; reflexivity.
  - destruct init'; cbn [app]; eexists; reflexivity.
Qed.
Lemma classify_cr n t : exists e, classify (ROk n (t ++ [CR])) = RBad e (t ++ [CR]).
Proof.
  unfold classify, parse_line. destruct (t ++ [CR]) as [|c r] eqn:E; [destruct t; discriminate|]. rewrite <- E.
  destruct (starts_with CHAIN (t ++ [CR])).
  - destruct (parse_header_cr t) as [e ->]. eexists; reflexivity.
  - destruct (parse_drec_cr t) as [e ->]. eexists; reflexivity.
Qed.

(** ---------- (A) what a cut inside a raw line leaves ---------- *)
(** relation between the text [t'] read from a non-empty proper prefix of a raw line and the text [t] of
    the whole line: the same text (the cut fell in the terminator), the text plus a stray CR, or a
    non-empty proper prefix of the text *)
Definition cut_text (t' t : bytes) : Prop :=
  t' = t \/ t' = t ++ [CR] \/ (exists r, t = t' ++ r /\ r <> [] /\ t' <> []).

Require Import CF.Proofs.ReaderFacts CF.Proofs.ChunkFacts.

Lemma chunk_shape b : forall cur c, In c (chunks_acc cur b) -> ~ In LF cur ->
  (exists t0, c = t0 ++ [LF] /\ ~ In LF t0) \/ ~ In LF c.
Proof.
  induction b as [|x r IH]; intros cur c Hin Hcur; cbn [chunks_acc] in Hin.
  - destruct cur as [|c0 cur']; [contradiction|]. destruct Hin as [<-|[]]. right. intros H. apply Hcur. apply in_rev. exact H.
  - destruct (x =? LF) eqn:E.
    + apply N.eqb_eq in E. subst x. destruct Hin as [<-|Hin].
      * left. exists (rev cur). cbn [rev]. split; [reflexivity|]. intros H. apply Hcur. apply in_rev. exact H.
      * apply (IH [] c Hin). intros [].
    + apply (IH (x :: cur) c Hin). intros [H|H]; [subst; rewrite N.eqb_refl in E; discriminate|contradiction].
Qed.

Lemma strip_eol_lf t0 : exists t, strip_eol (t0 ++ [LF]) = t /\ (t0 = t \/ t0 = t ++ [CR]).
Proof.
  rewrite strip_eol_rev, rev_app_distr. cbn [rev app]. rewrite N.eqb_refl.
  destruct (rev t0) as [|y r'] eqn:Er.
  - assert (t0 = []) by (apply (f_equal (@rev N)) in Er; rewrite rev_involutive in Er; exact Er). subst. exists []. auto.
  - assert (Ht0: t0 = rev r' ++ [y]) by (apply (f_equal (@rev N)) in Er; rewrite rev_involutive in Er; exact Er).
    destruct (y =? CR) eqn:Ey.
    + apply N.eqb_eq in Ey. subst y. exists (rev r'). auto.
    + exists t0. split; [rewrite Ht0; cbn [rev]; reflexivity|auto].
Qed.
Lemma strip_eol_nolf c : ~ In LF c -> strip_eol c = c.
Proof.
  intros H. rewrite strip_eol_rev. destruct (rev c) as [|y r] eqn:Er; [reflexivity|].
  destruct (y =? LF) eqn:E; [|reflexivity]. apply N.eqb_eq in E. subst y. exfalso. apply H. apply in_rev. rewrite Er. left. reflexivity.
Qed.

Lemma cut_of_prefix p c : (exists t0, c = t0 ++ [LF] /\ ~ In LF t0) \/ ~ In LF c -> proper_prefix p c -> ~ In LF p ->
  cut_text p (strip_eol c).
Proof.
  intros Hshape (rest & Hc & Hrest & Hp) Hnp. destruct Hshape as [(t0 & -> & Hn0)|Hnc].
  - assert (Hpre: exists r0, t0 = p ++ r0).
    { symmetry in Hc. apply app_eq_app in Hc as [l [[H1 H2]|[H1 H2]]].
      - destruct l as [|y l'].
        + rewrite app_nil_r in H1. exists []. rewrite app_nil_r. symmetry; exact H1.
        + exfalso. cbn in H2. injection H2 as Hy Hl. symmetry in Hl. apply app_eq_nil in Hl as [_ Hr]. contradiction.
      - exists l. exact H1. }
    destruct Hpre as [r0 Ht0]. destruct (strip_eol_lf t0) as (t & -> & [Ht|Ht]).
    + subst t. destruct r0 as [|y r0'].
      * left. rewrite Ht0, app_nil_r. reflexivity.
      * right. right. exists (y :: r0'). split; [exact Ht0|]. split; [discriminate|exact Hp].
    + rewrite Ht in Ht0. apply app_eq_app in Ht0 as [l [[H1 H2]|[H1 H2]]].
      * (* t = p ++ l, r0 = l ++ [CR] *) destruct l as [|y l'].
        -- left. rewrite H1, app_nil_r. reflexivity.
        -- right. right. exists (y :: l'). split; [exact H1|]. split; [discriminate|exact Hp].
      * (* p = t ++ l, [CR] = l ++ r0 *) destruct l as [|y l'].
        -- left. rewrite H1, app_nil_r. reflexivity.
        -- cbn in H2. injection H2 as Hy Hl. symmetry in Hl. apply app_eq_nil in Hl as [-> ->]. right. left. rewrite H1, <- Hy. reflexivity.
  - rewrite strip_eol_nolf by exact Hnc. right. right. exists rest. auto.
Qed.

(** ---------- (E) assembling ---------- *)
Lemma tot_app f l1 l2 : tot f (l1 ++ l2) = tot f l1 + tot f l2.
Proof. induction l1 as [|c r IH]; cbn [app tot]; [lia|]. rewrite IH. lia. Qed.
Lemma push_pairs_app hm l1 l2 : push_pairs hm (l1 ++ l2) = push_pairs (push_pairs hm l1) l2.
Proof. unfold push_pairs. apply fold_left_app. Qed.

Lemma build_secs_loop_app l1 : forall l2 b, build_secs_loop (l1 ++ l2) b =
  match build_secs_loop l1 b with Val (Ok b') => build_secs_loop l2 b' | other => other end.
Proof.
  induction l1 as [|s r IH]; intros l2 b; cbn [app build_secs_loop]; [reflexivity|].
  destruct (add_section b s) as [[b'|e]|p]; try reflexivity. apply IH.
Qed.

(** the section cut at a data line that now reads as a (smaller or equal) terminating record *)
Lemma add_section_cut b h done d more d' :
  hdr_ok h -> sums_ok {| shdr := h; sdata := done ++ d :: more |} ->
  dterm d' = true -> ddt d' = None -> ddq d' = None -> dsize d' <= dsize d ->
  (exists e, add_section b {| shdr := h; sdata := done ++ [d'] |} = Val (Err e)) \/
  add_section b {| shdr := h; sdata := done ++ [d'] |} = add_section b {| shdr := h; sdata := done ++ d :: more |}.
Proof.
  intros Hh Hsum Ht Hdt Hdq Hle.
  rewrite !add_section_closed by exact Hh. cbn [shdr sdata].
  destruct (dict_update (bqry b) _ _) as [qd|]; [|right; reflexivity].
  destruct (dict_update (bref b) _ _) as [rd|]; [|right; reflexivity].
  assert (Hfull: no_err (spec_run (seq_ival (href h)) (seq_ival (hqry h)) 0 0 (done ++ d :: more)) = true).
  { apply (sums_ok_of_no_err {| shdr := h; sdata := done ++ d :: more |} Hh). exact Hsum. }
  rewrite (push_items_spec_run h (done ++ d :: more) 0 0 (bhm b) Hfull).
  destruct (no_err (spec_run (seq_ival (href h)) (seq_ival (hqry h)) 0 0 (done ++ [d']))) eqn:Hcut.
  2:{ left. destruct (proj2 (push_items_err_iff (bhm b) _) Hcut) as [e He]. rewrite He. eexists; reflexivity. }
  right. rewrite (push_items_spec_run h (done ++ [d']) 0 0 (bhm b) Hcut).
  assert (Hs': sums_ok {| shdr := h; sdata := done ++ [d'] |}) by (apply (sums_ok_of_no_err {| shdr := h; sdata := done ++ [d'] |} Hh); exact Hcut).
  destruct Hsum as [S1 S2]. destruct Hs' as [C1 C2]. cbn [shdr sdata] in *.
  rewrite !tot_app in *. cbn [tot] in *. rewrite Hdt, Hdq in *. cbn [gap] in *.
  assert (Esz: dsize d' = dsize d) by lia.
  assert (Z1: tot ddt more = 0) by lia. assert (G1: gap (ddt d) = 0) by lia. assert (G2: gap (ddq d) = 0) by lia.
  rewrite !N.add_0_r. rewrite !blocks_local_app. cbn [blocks_local]. rewrite !map_app. cbn [map]. rewrite !push_pairs_app.
  rewrite Esz.
  assert (Hcons: forall hm p l, push_pairs hm (p :: l) = push_pairs (push_pair hm p) l) by reflexivity.
  rewrite !Hcons. rewrite (push_pairs_zero_blocks h _ _ _ more (tot_zero_sizes ddt more Z1)). reflexivity.
Qed.

Lemma firstn_snoc {A} (l : list A) i x : nth_error l i = Some x -> firstn (S i) l = firstn i l ++ [x].
Proof.
  revert i. induction l as [|a l IH]; intros [|i] H; try discriminate.
  - injection H as ->. reflexivity.
  - cbn [firstn app]. f_equal. apply IH. exact H.
Qed.
Lemma nth_split {A} (l : list A) i x : nth_error l i = Some x -> l = firstn i l ++ x :: skipn (S i) l.
Proof.
  revert i. induction l as [|a l IH]; intros [|i] H; try discriminate.
  - injection H as ->. reflexivity.
  - cbn [firstn skipn app]. f_equal. apply IH. exact H.
Qed.
Lemma firstn_skipn_cons {A} (f : list A) j s r : skipn j f = s :: r -> firstn (S j) f = firstn j f ++ [s].
Proof.
  revert j. induction f as [|a f IH]; intros [|j] H; try discriminate.
  - cbn in H. injection H as -> _. reflexivity.
  - cbn [firstn app]. f_equal. apply IH. exact H.
Qed.
Lemma skipn_in {A} (f : list A) j x : In x (skipn j f) -> In x f.
Proof. revert j. induction f as [|a f IH]; intros [|j] H; cbn [skipn] in H; auto. right. eapply IH; eauto. Qed.

Lemma build_reads_items rs items : spec_sections None 0 rs = items ->
  build_reads rs = match build_items items bstate0 with
                   | Panic s => Panic s | Val (Err e) => Val (Err e) | Val (Ok b) => Val (Ok (machine_of_bstate b)) end.
Proof. intros <-. unfold build_reads, sections_new. rewrite build_loop_grammar by lia. reflexivity. Qed.

(** C08 (a cut inside a line), at the level of line reads: replace line i of an accepted stream by what a
    cut inside that raw line leaves ([r']) and drop everything after it: the build fails, or gives the
    machine of a whole-chain prefix of the file. *)
Theorem build_reads_cut rs f m i n t r' :
  spec_sections None 0 rs = map Ok f -> build_secs f = Val (Ok m) ->
  nth_error rs i = Some (ROk n t) ->
  ((exists e k, r' = RErr e k) \/ exists n' t', r' = ROk n' t' /\ cut_text t' t) ->
  (exists j, build_reads (firstn i rs ++ [r']) = build_secs (firstn j f)) \/
  (exists e, build_reads (firstn i rs ++ [r']) = Val (Err e)).
Proof.
  intros Hf Hb Hnth Hr'.
  assert (Hok: Forall sec_ok f).
  { pose proof (spec_sections_ok rs None 0 I) as Ho. rewrite Hf in Ho. rewrite Forall_forall in *. intros s Hs.
    apply (Ho (Ok s)). apply in_map. exact Hs. }
  destruct (build_secs_inv f m Hok Hb) as (bb & _ & Hloop & Hsums & _).
  pose proof (nth_split rs i _ Hnth) as Hrs.
  rewrite Hrs in Hf. destruct (spec_sections_split (firstn i rs) None 0 _ f Hf) as (j & cur' & idx' & H1 & H2).
  assert (Hpre: Forall sec_ok (firstn j f)).
  { rewrite Forall_forall in *. intros s Hs. apply Hok. eapply in_firstn; eauto. }
  (* outcome when what follows the prefix is a single error item *)
  assert (Herr: forall e, spec_sections cur' idx' [r'] = [Err e] -> exists e', build_reads (firstn i rs ++ [r']) = Val (Err e')).
  { intros e He. rewrite (build_reads_items _ _ (H1 [r'])), He.
    destruct (build_items_err_tail (firstn j f) Hpre e bstate0) as [e' ->]. eexists; reflexivity. }
  destruct Hr' as [(e & k & ->)|(n' & t' & -> & Hcut)].
  { right. apply (Herr (EIo e)). cbn [spec_sections classify]. reflexivity. }
  destruct Hcut as [->|[->|(r & Ht & Hrne & Ht'ne)]].
  - (* same text: this is the stream cut after line i *)
    rewrite (build_reads_classify (firstn i rs ++ [ROk n' t]) (firstn (S i) rs)).
    + rewrite <- Hrs in Hf. apply (build_reads_prefix rs f (S i) Hf).
    + rewrite (firstn_snoc rs i _ Hnth), !map_app. reflexivity.
    + rewrite (firstn_snoc rs i _ Hnth), !app_length. reflexivity.
  - (* text followed by a stray CR *)
    right. destruct (classify_cr n' t) as [e He]. apply (Herr (EBadLine e (t ++ [CR]))).
    cbn [spec_sections]. rewrite He. reflexivity.
  - (* a non-empty proper prefix of the text *)
    destruct (classify (ROk n' t')) as [|h'|d'|e0 t0|e0] eqn:C.
    + apply classify_blank_text in C. contradiction.
    + right. destruct cur' as [s|].
      * apply (Herr (EHdrIn h')). cbn [spec_sections]. rewrite C. reflexivity.
      * apply (Herr EAbrupt). cbn [spec_sections]. rewrite C. reflexivity.
    + destruct cur' as [s|].
      2:{ right. apply (Herr (EDataBetween d')). cbn [spec_sections]. rewrite C. reflexivity. }
      destruct (dterm d') eqn:T.
      2:{ right. apply (Herr EAbrupt). cbn [spec_sections]. rewrite C, T. reflexivity. }
      (* the cut line reads as a terminating record: the section completes early *)
      destruct (spec_sections_extends_next _ _ _ _ _ H2) as (d & more & f'' & Cx & Hskip).
      destruct (classify_data_parse _ _ _ Cx) as [Pd _]. destruct (classify_data_parse _ _ _ C) as [Pd' _].
      rewrite Ht in Pd. pose proof (drec_prefix _ _ _ _ Pd Pd' T) as Hle.
      destruct (parse_drec_ok _ _ Pd') as [Hdok _]. unfold drec_ok in Hdok. rewrite T in Hdok. destruct Hdok as [Hdt Hdq].
      set (s_full := {| shdr := shdr s; sdata := sdata s ++ d :: more |}) in *.
      set (s_cut := {| shdr := shdr s; sdata := sdata s ++ [d'] |}).
      assert (Hin: In s_full f) by (apply (skipn_in f j); rewrite Hskip; left; reflexivity).
      assert (Hhs: hdr_ok (shdr s)) by (rewrite Forall_forall in Hok; apply (Hok s_full Hin)).
      assert (Hss: sums_ok s_full) by (rewrite Forall_forall in Hsums; apply (Hsums s_full Hin)).
      assert (Hspec: spec_sections None 0 (firstn i rs ++ [ROk n' t']) = map Ok (firstn j f ++ [s_cut])).
      { rewrite (H1 [ROk n' t']). cbn [spec_sections]. rewrite C, T. rewrite map_app. reflexivity. }
      rewrite (build_reads_items _ _ Hspec), build_items_oks, build_secs_loop_app.
      (* the prefix builds, because the whole file does *)
      assert (Hf_split: f = firstn j f ++ s_full :: f'') by (rewrite <- Hskip; symmetry; apply firstn_skipn).
      rewrite Hf_split, build_secs_loop_app in Hloop.
      destruct (build_secs_loop (firstn j f) bstate0) as [[bpre|e]|p] eqn:Epre; try discriminate.
      cbn [build_secs_loop] in Hloop |- *.
      destruct (add_section_cut bpre (shdr s) (sdata s) d more d' Hhs Hss T Hdt Hdq Hle) as [[e He]|Heq].
      * right. fold s_cut in He. rewrite He. eexists; reflexivity.
      * left. exists (S j). fold s_cut s_full in Heq. rewrite Heq.
        rewrite (firstn_skipn_cons f j _ _ Hskip). unfold build_secs. rewrite build_secs_loop_app, Epre. cbn [build_secs_loop].
        destruct (add_section bpre s_full) as [[b1|e1]|p1]; reflexivity.
    + right. apply (Herr (EBadLine e0 t0)). cbn [spec_sections]. rewrite C. reflexivity.
    + unfold classify in C. destruct (parse_line t') as [[|?|?]|?]; discriminate.
Qed.

(** ---------- C08 at byte level ---------- *)
Theorem build_truncated b m k : build (src_of_bytes b) = Val (Ok m) ->
  exists f, spec_sections None 0 (raw_reads (src_of_bytes b)) = map Ok f /\ build_secs f = Val (Ok m) /\
    ((exists j, build (src_of_bytes (firstn k b)) = build_secs (firstn j f)) \/
     (exists e, build (src_of_bytes (firstn k b)) = Val (Err e))).
Proof.
  unfold build. intros Hb. destruct (build_reads_ok_inv _ _ Hb) as (f & Hf & Hok & Hbs & Hsums).
  exists f. split; [exact Hf|]. split; [exact Hbs|].
  destruct (raw_reads_truncated b k) as [i [->|(p & c & Hnth & Hpp & Hnp & ->)]].
  - apply build_reads_prefix. exact Hf.
  - rewrite raw_reads_chunks in *.
    assert (Hnth': nth_error (map read_of (chunks b)) i = Some (read_of c)) by (rewrite nth_error_map, Hnth; reflexivity).
    assert (Hc_in: In c (chunks b)) by (eapply nth_error_In; eauto).
    (* the whole line was read without error, since the stream is accepted *)
    assert (Hrc: read_of c = ROk (N.of_nat (length c)) (strip_eol c)).
    { unfold read_of. destruct (negb (utf8_valid c)) eqn:V; [|reflexivity]. exfalso.
      assert (Hin: In (read_of c) (map read_of (chunks b))) by (apply in_map; exact Hc_in).
      destruct (spec_sections_io_err _ None 0 (read_of c) IoUtf8 Hin) as [e' He'].
      { unfold read_of. rewrite V. reflexivity. }
      rewrite Hf in He'. apply in_map_iff in He' as (s & Hs & _). discriminate. }
    rewrite Hrc in Hnth'.
    apply (build_reads_cut _ f m i _ _ (read_of p) Hf Hbs Hnth').
    rewrite (read_of_prefix p Hnp). destruct (negb (utf8_valid p)).
    + left. eauto.
    + right. exists (N.of_nat (length p)), p. split; [reflexivity|].
      apply cut_of_prefix; [|exact Hpp|exact Hnp]. apply (chunk_shape b [] c Hc_in). intros [].
Qed.
