(** C08: a cut inside a line.  Pieces: (B) the grammar after an error-free prefix, (C) a numeral that is a
    proper prefix of a numeral, (D) trailing empty blocks do not change the machine. *)
Require Import CF.Proofs.Tac CF.Model.Omics CF.Model.Pair CF.Model.Text CF.Model.Records CF.Model.Reader CF.Model.Sections
  CF.Model.StepThrough CF.Model.Lapper CF.Model.Machine
  CF.Proofs.OmicsFacts CF.Proofs.RecordsFacts CF.Proofs.StepFacts CF.Proofs.SectionsFacts CF.Proofs.TextFacts
  CF.Spec.Align CF.Proofs.MachineFacts CF.Proofs.BuildFacts CF.Proofs.PanicFacts CF.Proofs.TruncFacts.

(** ---------- (B) the grammar over an error-free stream, split at any point ---------- *)
(** in an error-free stream, the first section to complete extends the section under construction *)
Lemma spec_sections_extends rs : forall s idx f, spec_sections (Some s) idx rs = map Ok f ->
  exists more f', f = {| shdr := shdr s; sdata := sdata s ++ more |} :: f' /\ more <> [].
Proof.
  induction rs as [|x rest IH]; intros s idx f H; cbn [spec_sections] in H.
  - destruct f; discriminate.
  - destruct (classify x) as [|h|d|e t|e]; try (destruct f; discriminate).
    destruct (dterm d).
    + destruct f as [|s1 f']; [discriminate|]. cbn [map] in H. injection H as H1 H2. exists [d], f'. rewrite <- H1. split; [reflexivity|discriminate].
    + apply IH in H as (more & f' & -> & Hm). cbn [shdr sdata]. exists (d :: more), f'. rewrite <- app_assoc. split; [reflexivity|discriminate].
Qed.

(** the grammar of [rs1 ++ rs2] when [rs1 ++ rs2 ++ ...] is error-free: the sections completed inside rs1,
    then the grammar of rs2 from the state reached *)
Lemma spec_sections_split rs1 : forall cur idx rs2 f, spec_sections cur idx (rs1 ++ rs2) = map Ok f ->
  exists j cur' idx', (forall rs, spec_sections cur idx (rs1 ++ rs) = map Ok (firstn j f) ++ spec_sections cur' idx' rs) /\
                      spec_sections cur' idx' rs2 = map Ok (skipn j f).
Proof.
  induction rs1 as [|x rest IH]; intros cur idx rs2 f H.
  - exists 0%nat, cur, idx. cbn [app firstn skipn map]. split; [reflexivity|exact H].
  - cbn [app spec_sections] in H. destruct (classify x) as [|h|d|e t|e] eqn:C; try (destruct f; discriminate).
    + destruct cur; [destruct f; discriminate|]. destruct (IH None (idx + 1) rs2 f H) as (j & cur' & idx' & H1 & H2).
      exists j, cur', idx'. split; [|exact H2]. intros rs. cbn [app spec_sections]. rewrite C. apply H1.
    + destruct cur; [destruct f; discriminate|]. destruct (IH _ (idx + 1) rs2 f H) as (j & cur' & idx' & H1 & H2).
      exists j, cur', idx'. split; [|exact H2]. intros rs. cbn [app spec_sections]. rewrite C. apply H1.
    + destruct cur as [s|]; [|destruct f; discriminate]. destruct (dterm d) eqn:T.
      * destruct f as [|s1 f']; [discriminate|]. cbn [map] in H. injection H as Hs Hr.
        destruct (IH None (idx + 1) rs2 f' Hr) as (j & cur' & idx' & H1 & H2).
        exists (S j), cur', idx'. split; [|cbn [skipn]; exact H2]. intros rs. cbn [app spec_sections firstn map]. rewrite C, T, Hs. f_equal. apply H1.
      * destruct (IH _ (idx + 1) rs2 f H) as (j & cur' & idx' & H1 & H2).
        exists j, cur', idx'. split; [|exact H2]. intros rs. cbn [app spec_sections]. rewrite C, T. apply H1.
Qed.

(** ---------- (C) numerals ---------- *)
Lemma parse_digits_mono l1 : forall a l2 v v1, parse_digits a (l1 ++ l2) = Some v -> parse_digits a l1 = Some v1 -> v1 <= v.
Proof.
  intros a l2 v v1 H H1. rewrite parse_digits_app, H1 in H. clear H1. revert v1 v H.
  induction l2 as [|b r IH]; intros v1 v; cbn [parse_digits].
  - intros [= <-]. lia.
  - destruct (is_digit b); [|discriminate]. destruct (v1 * 10 + (b - 48) <=? U64MAX) eqn:E; [|discriminate].
    intros H. apply IH in H. lia.
Qed.
Lemma parse_digits_nonempty_or a l v : parse_digits a l = Some v -> a <= v.
Proof. intros H. apply (parse_digits_mono [] a l v a); [exact H|reflexivity]. Qed.

(** a numeral that is a prefix of a numeral denotes at most as much *)
Lemma parse_u64_prefix_le a b v v' : parse_u64 (a ++ b) = Some v -> parse_u64 a = Some v' -> v' <= v.
Proof.
  destruct b as [|y b']; [rewrite app_nil_r; intros H1 H2; rewrite H1 in H2; injection H2 as <-; lia|].
  unfold parse_u64. destruct a as [|x [|x2 a']]; [discriminate| |].
  - (* a = [x] *) cbn [app]. destruct (is_digit x) eqn:Dx; [|discriminate]. intros H [= <-].
    assert (Hp: x =? PLUS = false) by (unfold is_digit, PLUS in *; lia). rewrite Hp in H.
    assert (H1: parse_digits 0 [x] = Some (x - 48)).
    { cbn [parse_digits]. rewrite Dx. destruct (0 * 10 + (x - 48) <=? U64MAX) eqn:E; [f_equal; lia|unfold is_digit, U64MAX in *; lia]. }
    apply (parse_digits_mono [x] 0 (y :: b') v (x - 48) H H1).
  - cbn [app]. destruct (x =? PLUS).
    + intros H H'. eapply (parse_digits_mono (x2 :: a') 0 (y :: b')); eauto.
    + intros H H'. eapply (parse_digits_mono (x :: x2 :: a') 0 (y :: b')); eauto.
Qed.

(** ---------- (D) trailing empty blocks ---------- *)
Lemma tot_zero_sizes f rs : tot f rs = 0 -> Forall (fun c => dsize c = 0) rs.
Proof. induction rs as [|c r IH]; cbn [tot]; intros H; constructor; [lia|apply IH; lia]. Qed.

Lemma push_pairs_zero_blocks h hm : forall t q rs, Forall (fun c => dsize c = 0) rs ->
  push_pairs hm (map (pair_of_block h) (blocks_local t q rs)) = hm.
Proof.
  intros t q rs. revert t q. induction rs as [|c r IH]; intros t q H; cbn [blocks_local map push_pairs fold_left]; [reflexivity|].
  inversion H as [|? ? Hc Hr]; subst. unfold push_pair at 2, nonzero. cbn [pair_of_block pref].
  assert (Hz: count_entities (sub (seq_ival (href h)) (t - sstart (href h)) (t - sstart (href h) + dsize c)) = 0).
  { rewrite Hc, N.add_0_r. unfold count_entities, dist, sub. cbn [ia ib]. lia. }
  rewrite Hz. cbn [negb N.eqb]. replace (0 =? 0) with true by reflexivity. cbn [negb]. apply IH. exact Hr.
Qed.

Lemma blocks_local_app t q rs1 rs2 :
  blocks_local t q (rs1 ++ rs2) = blocks_local t q rs1 ++ blocks_local (t + tot ddt rs1) (q + tot ddq rs1) rs2.
Proof.
  revert t q. induction rs1 as [|c r IH]; intros t q; cbn [app blocks_local tot].
  - rewrite !N.add_0_r. reflexivity.
  - fold (gap (ddt c)). fold (gap (ddq c)). rewrite IH. f_equal. f_equal; f_equal; lia.
Qed.

(** ---------- the grammar sees a stream only through the classification of its reads ---------- *)
Lemma spec_sections_classify rs1 : forall rs2 cur idx, map classify rs1 = map classify rs2 ->
  spec_sections cur idx rs1 = spec_sections cur idx rs2.
Proof.
  induction rs1 as [|x r IH]; intros [|y r2] cur idx H; try discriminate; [reflexivity|].
  cbn [map] in H. injection H as Hx Hr. cbn [spec_sections]. rewrite Hx.
  destruct (classify y); try reflexivity.
  - destruct cur; [reflexivity|apply IH; exact Hr].
  - destruct cur; [reflexivity|apply IH; exact Hr].
  - destruct cur; [|reflexivity]. destruct (dterm d); [f_equal|]; apply IH; exact Hr.
Qed.
Lemma build_reads_classify rs1 rs2 : map classify rs1 = map classify rs2 -> length rs1 = length rs2 -> build_reads rs1 = build_reads rs2.
Proof.
  intros H Hl. unfold build_reads, sections_new. rewrite !build_loop_grammar by lia.
  rewrite (spec_sections_classify rs1 rs2 None 0 H). reflexivity.
Qed.

(** refined: the next line of a section under construction is a data line and the section extends with it *)
Lemma spec_sections_extends_next x rest s idx f : spec_sections (Some s) idx (x :: rest) = map Ok f ->
  exists d more f', classify x = RData d /\ f = {| shdr := shdr s; sdata := sdata s ++ d :: more |} :: f'.
Proof.
  cbn [spec_sections]. destruct (classify x) as [|h|d|e t|e]; try (destruct f; discriminate).
  intros H. exists d. destruct (dterm d).
  - destruct f as [|s1 f']; [discriminate|]. cbn [map] in H. injection H as H1 H2. exists [], f'. rewrite <- H1. auto.
  - apply spec_sections_extends in H as (more & f' & -> & _). cbn [shdr sdata]. exists more, f'. rewrite <- app_assoc. auto.
Qed.

(** ---------- a data line cut to a shorter terminating data line ---------- *)
Lemma split_nonempty d s : split d s <> [].
Proof. destruct s as [|b r]; cbn [split]; [discriminate|]. destruct (b =? d); [discriminate|]. destruct (split d r); discriminate. Qed.
Lemma split_single d s f : split d s = [f] -> f = s /\ ~ In d s.
Proof.
  revert f. induction s as [|b r IH]; intros f; cbn [split].
  - intros [= <-]. split; auto.
  - destruct (b =? d) eqn:E; [intros H; injection H as _ H2; exfalso; eapply split_nonempty; eauto|].
    destruct (split d r) as [|f0 fs] eqn:Es; [exfalso; eapply split_nonempty; eauto|].
    intros [= <- ->]. destruct (IH f0 eq_refl) as [-> Hn]. split; [reflexivity|].
    intros [H|H]; [subst; rewrite N.eqb_refl in E; discriminate|contradiction].
Qed.
Lemma split_prepend d a r : ~ In d a -> split d (a ++ r) = match split d r with f0 :: fs => (a ++ f0) :: fs | [] => [a] end.
Proof.
  induction a as [|b a' IH]; intros H; cbn [app].
  - destruct (split d r) eqn:Es; [exfalso; eapply split_nonempty; eauto|reflexivity].
  - cbn [split]. destruct (b =? d) eqn:E; [apply N.eqb_eq in E; subst; exfalso; apply H; left; reflexivity|].
    rewrite IH by (intros Hin; apply H; right; exact Hin). destruct (split d r); reflexivity.
Qed.

Lemma drec_prefix t' r d d' : parse_drec (t' ++ r) = Ok d -> parse_drec t' = Ok d' -> dterm d' = true -> dsize d' <= dsize d.
Proof.
  intros H H' T. unfold parse_drec in H'.
  destruct (split TAB t') as [|p0 [|p1 [|p2 [|p3 l]]]] eqn:Es; try discriminate.
  - destruct (split_single _ _ _ Es) as [-> Hn].
    destruct (parse_u64 t') as [v'|] eqn:Ev'; [|discriminate]. cbn in H'. injection H' as <-. cbn [dsize].
    unfold parse_drec in H. rewrite split_prepend in H by exact Hn.
    destruct (split TAB r) as [|f0 fs] eqn:Er; [exfalso; eapply split_nonempty; eauto|].
    destruct fs as [|f1 [|f2 [|f3 l]]]; try discriminate.
    + destruct (parse_u64 (t' ++ f0)) as [v|] eqn:Ev; [|discriminate]. cbn in H. injection H as <-. cbn [dsize].
      eapply parse_u64_prefix_le; eauto.
    + destruct (parse_u64 (t' ++ f0)) as [v|] eqn:Ev; [|discriminate].
      destruct (parse_u64 f1); [|discriminate]. destruct (parse_u64 f2); [|discriminate]. cbn in H. injection H as <-. cbn [dsize].
      eapply parse_u64_prefix_le; eauto.
  - destruct (parse_u64 p0); [|discriminate]. destruct (parse_u64 p1); [|discriminate]. destruct (parse_u64 p2); [|discriminate].
    cbn in H'. injection H' as <-. cbn in T. discriminate.
Qed.

(** what [classify] of a non-empty text means *)
Lemma classify_data_parse n t d : classify (ROk n t) = RData d -> parse_drec t = Ok d /\ t <> [].
Proof.
  unfold classify, parse_line. destruct t as [|c t']; [discriminate|]. destruct (starts_with CHAIN (c :: t')).
  - destruct (parse_header (c :: t')); discriminate.
  - destruct (parse_drec (c :: t')) as [d0|]; [|discriminate]. intros [= <-]. split; [reflexivity|discriminate].
Qed.
Lemma classify_blank_text n t : classify (ROk n t) = RBlank -> t = [].
Proof.
  unfold classify, parse_line. destruct t as [|c t']; [reflexivity|]. destruct (starts_with CHAIN (c :: t')).
  - destruct (parse_header (c :: t')); discriminate.
  - destruct (parse_drec (c :: t')); discriminate.
Qed.

(** a line followed by a stray CR never parses *)
Lemma parse_u64_cr s : parse_u64 (s ++ [CR]) = None.
Proof.
  assert (H: forall a l, parse_digits a (l ++ [CR]) = None).
  { intros a l. rewrite parse_digits_app. destruct (parse_digits a l); [|reflexivity]. reflexivity. }
  unfold parse_u64. destruct s as [|b [|c r]]; cbn [app].
  - reflexivity.
  - destruct (b =? PLUS); [reflexivity|]. cbn [parse_digits]. destruct (is_digit b); [|reflexivity].
    destruct (0 * 10 + (b - 48) <=? U64MAX); reflexivity.
  - destruct (b =? PLUS); [apply (H 0 (c :: r))|apply (H 0 (b :: c :: r))].
Qed.
Lemma split_append_last d s c : c <> d -> exists init l, split d s = init ++ [l] /\ split d (s ++ [c]) = init ++ [l ++ [c]].
Proof.
  intros Hc. induction s as [|b r IH]; cbn [app split].
  - assert (c =? d = false) as -> by (apply N.eqb_neq; exact Hc). cbn [split]. exists [], []. split; reflexivity.
  - destruct IH as (init & l & E1 & E2). destruct (b =? d).
    + exists ([] :: init), l. rewrite E1, E2. split; reflexivity.
    + rewrite E1, E2. destruct init as [|f fs]; cbn [app].
      * exists [], (b :: l). split; reflexivity.
      * exists ((b :: f) :: fs), l. split; reflexivity.
Qed.
