(** C08: a cut inside a line.  Pieces: (B) the grammar after an error-free prefix, (C) a numeral that is a
    proper prefix of a numeral, (D) trailing empty blocks do not change the machine. *)
Require Import CF.Proofs.Tac CF.Model.Omics CF.Model.Pair CF.Model.Text CF.Model.Records CF.Model.Reader CF.Model.Sections
  CF.Model.StepThrough CF.Model.Lapper CF.Model.Machine
  CF.Proofs.OmicsFacts CF.Proofs.RecordsFacts CF.Proofs.StepFacts CF.Proofs.SectionsFacts CF.Proofs.TextFacts
  CF.Spec.Align CF.Proofs.MachineFacts CF.Proofs.BuildFacts CF.Proofs.PanicFacts CF.Proofs.TruncFacts.

(** ---------- (B) the grammar over an error-free stream, split at any point ---------- *)
(** in an error-free stream, the first section to complete extends the section under construction *)
Lemma spec_sections_extends rs : forall s idx f, spec_sections (Some s) idx rs = map Ok f ->
  exists more f', f = {| shdr := shdr s; sdata := sdata s ++ more |} :: f' /\ more <> [].
Proof.
  induction rs as [|x rest IH]; intros s idx f H; cbn [spec_sections] in H.
  - destruct f; discriminate.
  - destruct (classify x) as [|h|d|e t|e]; try (destruct f; discriminate).
    destruct (dterm d).
    + destruct f as [|s1 f']; [discriminate|]. cbn [map] in H. injection H as H1 H2. exists [d], f'. rewrite <- H1. split; [reflexivity|discriminate].
    + apply IH in H as (more & f' & -> & Hm). cbn [shdr sdata]. exists (d :: more), f'. rewrite <- app_assoc. split; [reflexivity|discriminate].
Qed.

(** the grammar of [rs1 ++ rs2] when [rs1 ++ rs2 ++ ...] is error-free: the sections completed inside rs1,
    then the grammar of rs2 from the state reached *)
Lemma spec_sections_split rs1 : forall cur idx rs2 f, spec_sections cur idx (rs1 ++ rs2) = map Ok f ->
  exists j cur' idx', (forall rs, spec_sections cur idx (rs1 ++ rs) = map Ok (firstn j f) ++ spec_sections cur' idx' rs) /\
                      spec_sections cur' idx' rs2 = map Ok (skipn j f).
Proof.
  induction rs1 as [|x rest IH]; intros cur idx rs2 f H.
  - exists 0%nat, cur, idx. cbn [app firstn skipn map]. split; [reflexivity|exact H].
  - cbn [app spec_sections] in H. destruct (classify x) as [|h|d|e t|e] eqn:C; try (destruct f; discriminate).
    + destruct cur; [destruct f; discriminate|]. destruct (IH None (idx + 1) rs2 f H) as (j & cur' & idx' & H1 & H2).
      exists j, cur', idx'. split; [|exact H2]. intros rs. cbn [app spec_sections]. rewrite C. apply H1.
    + destruct cur; [destruct f; discriminate|]. destruct (IH _ (idx + 1) rs2 f H) as (j & cur' & idx' & H1 & H2).
      exists j, cur', idx'. split; [|exact H2]. intros rs. cbn [app spec_sections]. rewrite C. apply H1.
    + destruct cur as [s|]; [|destruct f; discriminate]. destruct (dterm d) eqn:T.
      * destruct f as [|s1 f']; [discriminate|]. cbn [map] in H. injection H as Hs Hr.
        destruct (IH None (idx + 1) rs2 f' Hr) as (j & cur' & idx' & H1 & H2).
        exists (S j), cur', idx'. split; [|cbn [skipn]; exact H2]. intros rs. cbn [app spec_sections firstn map]. rewrite C, T, Hs. f_equal. apply H1.
      * destruct (IH _ (idx + 1) rs2 f H) as (j & cur' & idx' & H1 & H2).
        exists j, cur', idx'. split; [|exact H2]. intros rs. cbn [app spec_sections]. rewrite C, T. apply H1.
Qed.

(** ---------- (C) numerals ---------- *)
Lemma parse_digits_mono l1 : forall a l2 v v1, parse_digits a (l1 ++ l2) = Some v -> parse_digits a l1 = Some v1 -> v1 <= v.
Proof.
  intros a l2 v v1 H H1. rewrite parse_digits_app, H1 in H. clear H1. revert v1 v H.
  induction l2 as [|b r IH]; intros v1 v; cbn [parse_digits].
  - intros [= <-]. lia.
  - destruct (is_digit b); [|discriminate]. destruct (v1 * 10 + (b - 48) <=? U64MAX) eqn:E; [|discriminate].
    intros H. apply IH in H. lia.
Qed.
Lemma parse_digits_nonempty_or a l v : parse_digits a l = Some v -> a <= v.
Proof. intros H. apply (parse_digits_mono [] a l v a); [exact H|reflexivity]. Qed.

(** a numeral that is a prefix of a numeral denotes at most as much *)
Lemma parse_u64_prefix_le a b v v' : parse_u64 (a ++ b) = Some v -> parse_u64 a = Some v' -> v' <= v.
Proof.
  destruct b as [|y b']; [rewrite app_nil_r; intros H1 H2; rewrite H1 in H2; injection H2 as <-; lia|].
  unfold parse_u64. destruct a as [|x [|x2 a']]; [discriminate| |].
  - (* a = [x] *) cbn [app]. destruct (is_digit x) eqn:Dx; [|discriminate]. intros H [= <-].
    assert (Hp: x =? PLUS = false) by (unfold is_digit, PLUS in *; lia). rewrite Hp in H.
    assert (H1: parse_digits 0 [x] = Some (x - 48)).
    { cbn [parse_digits]. rewrite Dx. destruct (0 * 10 + (x - 48) <=? U64MAX) eqn:E; [f_equal; lia|unfold is_digit, U64MAX in *; lia]. }
    apply (parse_digits_mono [x] 0 (y :: b') v (x - 48) H H1).
  - cbn [app]. destruct (x =? PLUS).
    + intros H H'. eapply (parse_digits_mono (x2 :: a') 0 (y :: b')); eauto.
    + intros H H'. eapply (parse_digits_mono (x :: x2 :: a') 0 (y :: b')); eauto.
Qed.

(** ---------- (D) trailing empty blocks ---------- *)
Lemma tot_zero_sizes f rs : tot f rs = 0 -> Forall (fun c => dsize c = 0) rs.
Proof. induction rs as [|c r IH]; cbn [tot]; intros H; constructor; [lia|apply IH; lia]. Qed.

Lemma push_pairs_zero_blocks h hm : forall t q rs, Forall (fun c => dsize c = 0) rs ->
  push_pairs hm (map (pair_of_block h) (blocks_local t q rs)) = hm.
Proof.
  intros t q rs. revert t q. induction rs as [|c r IH]; intros t q H; cbn [blocks_local map push_pairs fold_left]; [reflexivity|].
  inversion H as [|? ? Hc Hr]; subst. unfold push_pair at 2, nonzero. cbn [pair_of_block pref].
  assert (Hz: count_entities (sub (seq_ival (href h)) (t - sstart (href h)) (t - sstart (href h) + dsize c)) = 0).
  { rewrite Hc, N.add_0_r. unfold count_entities, dist, sub. cbn [ia ib]. lia. }
  rewrite Hz. cbn [negb N.eqb]. replace (0 =? 0) with true by reflexivity. cbn [negb]. apply IH. exact Hr.
Qed.

Lemma blocks_local_app t q rs1 rs2 :
  blocks_local t q (rs1 ++ rs2) = blocks_local t q rs1 ++ blocks_local (t + tot ddt rs1) (q + tot ddq rs1) rs2.
Proof.
  revert t q. induction rs1 as [|c r IH]; intros t q; cbn [app blocks_local tot].
  - rewrite !N.add_0_r. reflexivity.
  - fold (gap (ddt c)). fold (gap (ddq c)). rewrite IH. f_equal. f_equal; f_equal; lia.
Qed.
