(** L8: std read_until/read_line over any chunk schedule equals reading the flat bytes (C12, C08). *)
Require Import CF.Proofs.Tac CF.Model.Text CF.Model.Records CF.Model.Reader.

Lemma strip_eol_rev l : strip_eol l =
  match rev l with
  | x :: r => if x =? LF then match r with y :: r' => if y =? CR then rev r' else rev r | [] => [] end else l
  | [] => l
  end.
Proof. unfold strip_eol, rev'. rewrite <- !rev_alt. destruct (rev l) as [|x [|y r']]; try reflexivity; rewrite <- ?rev_alt; reflexivity. Qed.

(** ---------- take_line ---------- *)
Lemma take_line_split c : let '(t, rest, found) := take_line c in
  c = t ++ rest /\ (found = false -> rest = [] /\ ~ In LF c) /\
  (found = true -> exists t0, t = t0 ++ [LF] /\ ~ In LF t0).
Proof.
  induction c as [|b r IH]; cbn [take_line].
  - repeat split; auto; discriminate.
  - destruct (b =? LF) eqn:E.
    + apply N.eqb_eq in E. subst b. split; [reflexivity|]. split; [discriminate|]. intros _. exists []. split; auto.
    + destruct (take_line r) as [[t rest] f]. destruct IH as (H1 & H2 & H3). split; [|split].
      * cbn. f_equal. exact H1.
      * intros Hf. destruct (H2 Hf) as [Hr Hn]. split; [exact Hr|]. intros [Hb|Hin]; [unfold LF in *; lia|contradiction].
      * intros Hf. destruct (H3 Hf) as (t0 & -> & Hn). exists (b :: t0). split; [reflexivity|].
        intros [Hb|Hin]; [unfold LF in *; lia|contradiction].
Qed.

Lemma take_line_app a b :
  take_line (a ++ b) =
  let '(t, rest, found) := take_line a in
  if found then (t, rest ++ b, true)
  else let '(t2, rest2, f2) := take_line b in (a ++ t2, rest2, f2).
Proof.
  induction a as [|x a IH]; cbn [app take_line].
  - destruct (take_line b) as [[t2 rest2] f2]. reflexivity.
  - destruct (x =? LF); [reflexivity|]. rewrite IH. destruct (take_line a) as [[t rest] f].
    destruct f; [reflexivity|]. destruct (take_line b) as [[t2 rest2] f2]. reflexivity.
Qed.

(** ---------- the flat content of a source ---------- *)
Fixpoint flat (evs : list event) : bytes :=
  match evs with [] => [] | Chunk c :: r => c ++ flat r | _ :: r => flat r end.
Fixpoint no_fail (evs : list event) : Prop :=
  match evs with [] => True | Fail :: _ => False | _ :: r => no_fail r end.
Definition sim (s : src) (b : bytes) : Prop := no_fail (future s) /\ pending s ++ flat (future s) = b.

Lemma ru_flat evs : no_fail evs -> forall acc,
  let '(t, rest, found) := take_line (flat evs) in
  exists s', ru evs acc = (Ok (acc ++ t), s') /\ sim s' rest.
Proof.
  induction evs as [|e r IH]; intros Hn acc; cbn [flat ru].
  - cbn [take_line]. eexists. split; [rewrite app_nil_r; reflexivity|]. split; cbn; auto.
  - destruct e as [c| |]; cbn [no_fail] in Hn; [| |contradiction].
    + rewrite take_line_app. destruct (take_line c) as [[t rest] found] eqn:Ec.
      destruct found.
      * eexists. split; [reflexivity|]. split; cbn [future pending]; auto.
      * pose proof (take_line_split c) as Hs. rewrite Ec in Hs. destruct Hs as (Hc & Hnf & _).
        destruct (Hnf eq_refl) as [-> _]. rewrite app_nil_r in Hc. subst t.
        specialize (IH Hn (acc ++ c)). destruct (take_line (flat r)) as [[t2 rest2] f2].
        destruct IH as (s' & E & Hsim). exists s'. rewrite E, <- app_assoc. auto.
    + apply IH. exact Hn.
Qed.

Lemma read_until_sim s b : sim s b ->
  exists l s' b', read_until s = (Ok l, s') /\ read_until (src_of_bytes b) = (Ok l, src_of_bytes b') /\ sim s' b'.
Proof.
  intros [Hn Hb]. unfold read_until, src_of_bytes. cbn [pending future]. subst b.
  rewrite take_line_app. destruct (take_line (pending s)) as [[t rest] found] eqn:Ep.
  destruct found.
  - exists t. eexists. exists (rest ++ flat (future s)). split; [reflexivity|]. split; [reflexivity|]. split; cbn; auto.
  - pose proof (ru_flat (future s) Hn t) as H. destruct (take_line (flat (future s))) as [[t2 rest2] f2] eqn:Ef.
    destruct H as (s' & E & Hsim).
    pose proof (take_line_split (pending s)) as Hs. rewrite Ep in Hs. destruct Hs as (Hc & Hnf & _).
    destruct (Hnf eq_refl) as [-> _]. rewrite app_nil_r in Hc. subst t.
    exists (pending s ++ t2), s', rest2. split; [exact E|]. split; [|exact Hsim].
    destruct f2; [reflexivity|]. cbn [ru].
    pose proof (take_line_split (flat (future s))) as Hs2. rewrite Ef in Hs2. destruct Hs2 as (_ & Hnf2 & _).
    destruct (Hnf2 eq_refl) as [-> _]. reflexivity.
Qed.

Lemma read_line_raw_sim s b : sim s b ->
  exists r s' b', read_line_raw s = (r, s') /\ read_line_raw (src_of_bytes b) = (r, src_of_bytes b') /\ sim s' b'.
Proof.
  intros H. destruct (read_until_sim s b H) as (l & s' & b' & E1 & E2 & Hs). unfold read_line_raw. rewrite E1, E2.
  destruct (negb (utf8_valid l)); [do 3 eexists; split; [reflexivity|split; [reflexivity|exact Hs]]|].
  destruct l; do 3 eexists; (split; [reflexivity|split; [reflexivity|exact Hs]]).
Qed.

(** ---------- fuel ---------- *)
Fixpoint evsize (evs : list event) : nat :=
  match evs with [] => 0%nat | Chunk c :: r => S (length c + evsize r) | _ :: r => S (evsize r) end.
Lemma src_size_eq s : src_size s = (length (pending s) + evsize (future s))%nat.
Proof.
  unfold src_size.
  assert (H: forall evs, fold_right (fun e n => match e with Chunk c => S (length c + n) | _ => S n end) 0%nat evs = evsize evs).
  { induction evs as [|e r IH]; cbn [fold_right evsize]; [reflexivity|]. destruct e; rewrite IH; reflexivity. }
  rewrite H. reflexivity.
Qed.

Lemma take_line_len c : let '(t, rest, found) := take_line c in length c = (length t + length rest)%nat.
Proof. pose proof (take_line_split c) as H. destruct (take_line c) as [[t rest] f]. destruct H as [-> _]. apply app_length. Qed.

Lemma ru_size evs : forall acc r s', ru evs acc = (r, s') ->
  (src_size s' <= evsize evs)%nat /\
  (match r with Ok l => (length l + src_size s' <= length acc + evsize evs)%nat /\
                        (l = [] -> src_size s' = 0%nat) | Err _ => (src_size s' < evsize evs)%nat end).
Proof.
  induction evs as [|e r0 IH]; intros acc r s'; cbn [ru evsize].
  - intros [= <- <-]. rewrite src_size_eq. cbn. split; [lia|]. split; [lia|auto].
  - destruct e as [c| |].
    + pose proof (take_line_len c) as Hl. pose proof (take_line_split c) as Hs.
      destruct (take_line c) as [[t rest] found]. destruct found.
      * intros [= <- <-]. rewrite src_size_eq. cbn [pending future]. rewrite app_length. split; [lia|]. split; [lia|].
        intros H. apply app_eq_nil in H as [_ H]. destruct Hs as (_ & _ & Hf). destruct (Hf eq_refl) as (t0 & -> & _).
        destruct t0; discriminate.
      * intros H. apply IH in H as [H1 H2]. split; [lia|]. destruct r as [l|u]; [|lia].
        destruct H2 as [H2 H3]. rewrite app_length in H2. split; [lia|exact H3].
    + intros H. apply IH in H as [H1 H2]. split; [lia|]. destruct r as [l|u]; [|lia]. destruct H2; split; [lia|auto].
    + intros [= <- <-]. rewrite src_size_eq. cbn [pending future length]. split; lia.
Qed.

Lemma read_line_raw_size s r s' : read_line_raw s = (r, s') -> r <> REof -> (src_size s' < src_size s)%nat.
Proof.
  unfold read_line_raw, read_until. rewrite (src_size_eq s).
  pose proof (take_line_len (pending s)) as Hl. pose proof (take_line_split (pending s)) as Hs.
  destruct (take_line (pending s)) as [[t rest] found]. destruct found.
  - destruct Hs as (_ & _ & Hf). destruct (Hf eq_refl) as (t0 & -> & _).
    assert (Hsz: (src_size {| pending := rest; future := future s |} < length (pending s) + evsize (future s))%nat).
    { rewrite src_size_eq. cbn [pending future]. rewrite app_length in Hl. cbn in Hl. lia. }
    destruct (negb (utf8_valid (t0 ++ [LF]))); [intros [= <- <-] _; exact Hsz|].
    destruct (t0 ++ [LF]) eqn:E; [destruct t0; discriminate|]. intros [= <- <-] _. exact Hsz.
  - destruct Hs as (Hc & Hnf & _). destruct (Hnf eq_refl) as [-> _]. rewrite app_nil_r in Hc. subst t.
    destruct (ru (future s) (pending s)) as [[l|u] s1] eqn:E.
    + apply ru_size in E as [H1 [H2 H3]].
      destruct (negb (utf8_valid l)) eqn:V.
      * intros [= <- <-] _. destruct l as [|x l]; [cbn in V; discriminate|]. cbn [length] in H2. lia.
      * destruct l as [|x l]; [intros [= <- <-] Hne; contradiction|]. intros [= <- <-] _. cbn [length] in H2. lia.
    + apply ru_size in E as [H1 H2]. intros [= <- <-] _. lia.
Qed.

Lemma raw_reads_fuel_enough : forall f f' s, (src_size s < f)%nat -> (src_size s < f')%nat ->
  raw_reads_fuel f s = raw_reads_fuel f' s.
Proof.
  induction f as [|f IH]; intros f' s H1 H2; [lia|]. destruct f' as [|f']; [lia|]. cbn [raw_reads_fuel].
  destruct (read_line_raw s) as [r s'] eqn:E. destruct r as [n t|e n|]; try reflexivity.
  - f_equal. pose proof (read_line_raw_size _ _ _ E ltac:(discriminate)). apply IH; lia.
  - f_equal. pose proof (read_line_raw_size _ _ _ E ltac:(discriminate)). apply IH; lia.
Qed.

(** C12: parsing sees only the flat bytes, however the reader splits them into chunks and however many
    transient Interrupted errors it reports (C08): the stream of line reads is the same *)
Theorem raw_reads_chunking s b : sim s b -> raw_reads s = raw_reads (src_of_bytes b).
Proof.
  unfold raw_reads.
  assert (H: forall n s b, (src_size s < n)%nat -> sim s b ->
             raw_reads_fuel n s = raw_reads_fuel (S (src_size (src_of_bytes b))) (src_of_bytes b)).
  { induction n as [|n IH]; intros s0 b0 Hn Hsim; [lia|].
    destruct (read_line_raw_sim s0 b0 Hsim) as (r & s' & b' & E1 & E2 & Hs').
    cbn [raw_reads_fuel]. rewrite E1, E2. destruct r as [k t|e k|]; try reflexivity.
    - f_equal. pose proof (read_line_raw_size _ _ _ E1 ltac:(discriminate)). pose proof (read_line_raw_size _ _ _ E2 ltac:(discriminate)).
      rewrite (IH s' b') by (auto; lia). apply raw_reads_fuel_enough; lia.
    - f_equal. pose proof (read_line_raw_size _ _ _ E1 ltac:(discriminate)). pose proof (read_line_raw_size _ _ _ E2 ltac:(discriminate)).
      rewrite (IH s' b') by (auto; lia). apply raw_reads_fuel_enough; lia. }
  intros Hsim. apply H; [lia|exact Hsim].
Qed.

Corollary raw_reads_schedule evs : no_fail evs ->
  raw_reads {| pending := []; future := evs |} = raw_reads (src_of_bytes (flat evs)).
Proof. intros H. apply raw_reads_chunking. split; [exact H|reflexivity]. Qed.

(** inserting Interrupted events anywhere does not change the flat content *)
Lemma flat_insert_interrupted l1 l2 : flat (l1 ++ Interrupted :: l2) = flat (l1 ++ l2).
Proof. induction l1 as [|e r IH]; cbn [app flat]; [reflexivity|]. destruct e; rewrite ?IH; reflexivity. Qed.
Lemma no_fail_insert_interrupted l1 l2 : no_fail (l1 ++ l2) -> no_fail (l1 ++ Interrupted :: l2).
Proof. induction l1 as [|e r IH]; cbn [app no_fail]; [auto|]. destruct e; auto. Qed.

Theorem raw_reads_interrupted l1 l2 : no_fail (l1 ++ l2) ->
  raw_reads {| pending := []; future := l1 ++ Interrupted :: l2 |} = raw_reads {| pending := []; future := l1 ++ l2 |}.
Proof.
  intros H. rewrite !raw_reads_schedule by (auto using no_fail_insert_interrupted). rewrite flat_insert_interrupted. reflexivity.
Qed.

(** ---------- C12: a raw read reports exactly the bytes it consumed ---------- *)
Theorem raw_read_count b n t s' : read_line_raw (src_of_bytes b) = (ROk n t, s') ->
  exists l, b = l ++ pending s' /\ future s' = [] /\ n = N.of_nat (length l) /\ t = strip_eol l /\
            (l = t ++ [CR; LF] \/ (l = t ++ [LF]) \/ (l = t /\ pending s' = [])) /\ ~ In LF t.
Proof.
  unfold read_line_raw, read_until, src_of_bytes. cbn [pending future].
  pose proof (take_line_split b) as Hs. destruct (take_line b) as [[l rest] found]. destruct Hs as (Hb & Hnf & Hf).
  destruct found.
  - destruct (Hf eq_refl) as (t0 & -> & Hn0).
    destruct (negb (utf8_valid (t0 ++ [LF]))); [discriminate|].
    destruct (t0 ++ [LF]) eqn:E; [destruct t0; discriminate|]. rewrite <- E in *. intros [= <- <- <-]. cbn [pending future].
    exists (t0 ++ [LF]). split; [exact Hb|]. split; [reflexivity|]. split; [reflexivity|]. split; [reflexivity|].
    rewrite strip_eol_rev. rewrite rev_app_distr. cbn [rev app]. rewrite N.eqb_refl.
    destruct (rev t0) as [|y r'] eqn:Er.
    + assert (t0 = []) by (apply (f_equal (@rev N)) in Er; rewrite rev_involutive in Er; exact Er). subst t0.
      split; [right; left; reflexivity|exact Hn0].
    + assert (Ht0: t0 = rev r' ++ [y]) by (apply (f_equal (@rev N)) in Er; rewrite rev_involutive in Er; exact Er).
      destruct (y =? CR) eqn:Ey.
      * apply N.eqb_eq in Ey. subst y. split.
        -- left. rewrite Ht0, <- app_assoc. reflexivity.
        -- intros Hin. apply Hn0. rewrite Ht0. apply in_or_app. left. exact Hin.
      * rewrite <- Er, rev_involutive. split; [right; left; reflexivity|exact Hn0].
  - destruct (Hnf eq_refl) as [-> Hn0]. rewrite app_nil_r in Hb. subst l. cbn [ru].
    destruct (negb (utf8_valid b)); [discriminate|]. destruct b as [|x b'] eqn:Eb; [discriminate|]. rewrite <- Eb in *.
    intros [= <- <- <-]. cbn [pending future]. exists b. rewrite app_nil_r. split; [reflexivity|]. split; [reflexivity|].
    split; [reflexivity|]. split; [reflexivity|].
    assert (strip_eol b = b) as ->.
    { rewrite strip_eol_rev. destruct (rev b) as [|y r] eqn:Er; [reflexivity|].
      assert (In y b) by (apply in_rev; rewrite Er; left; reflexivity).
      destruct (y =? LF) eqn:Ey; [|reflexivity]. apply N.eqb_eq in Ey. subst y. contradiction. }
    split; [right; right; split; reflexivity|exact Hn0].
Qed.

(** ---------- C08: a hard failure of the underlying reader always reaches the stream of reads ---------- *)
Lemma ru_fail evs : In Fail evs -> forall acc,
  (exists s', ru evs acc = (Err tt, s')) \/ (exists l s', ru evs acc = (Ok l, s') /\ In Fail (future s') /\ l <> []).
Proof.
  induction evs as [|e r IH]; intros Hin acc; [contradiction|]. cbn [ru]. destruct e as [c| |].
  - destruct Hin as [H|Hin]; [discriminate|]. pose proof (take_line_split c) as Hs. destruct (take_line c) as [[t rest] found]. destruct found.
    + right. destruct Hs as (_ & _ & Hf). destruct (Hf eq_refl) as (t0 & -> & _). do 2 eexists. split; [reflexivity|]. split; [exact Hin|].
      intros H. apply app_eq_nil in H as [_ H]. destruct t0; discriminate.
    + apply IH. exact Hin.
  - destruct Hin as [H|Hin]; [discriminate|]. apply IH. exact Hin.
  - left. eexists; reflexivity.
Qed.

Lemma raw_reads_fuel_fail : forall fuel s, In Fail (future s) -> (src_size s < fuel)%nat ->
  exists n, In (RErr IoFail n) (raw_reads_fuel fuel s).
Proof.
  induction fuel as [|fuel IH]; intros s Hin Hf; [lia|]. cbn [raw_reads_fuel].
  destruct (read_line_raw s) as [r s'] eqn:E.
  assert (Hcases: r = RErr IoFail 0 \/ (r <> REof /\ In Fail (future s'))).
  { revert E. unfold read_line_raw, read_until. pose proof (take_line_split (pending s)) as Hs.
    destruct (take_line (pending s)) as [[t rest] found]. destruct found.
    - destruct Hs as (_ & _ & Hfd). destruct (Hfd eq_refl) as (t0 & -> & _).
      destruct (negb (utf8_valid (t0 ++ [LF]))); [intros [= <- <-]; right; split; [discriminate|exact Hin]|].
      destruct (t0 ++ [LF]) eqn:El; [destruct t0; discriminate|]. intros [= <- <-]. right. split; [discriminate|exact Hin].
    - destruct (ru_fail (future s) Hin t) as [(s1 & ->)|(l & s1 & -> & Hin1 & Hne)].
      + intros [= <- <-]. left. reflexivity.
      + destruct (negb (utf8_valid l)); [intros [= <- <-]; right; split; [discriminate|exact Hin1]|].
        destruct l; [contradiction|]. intros [= <- <-]. right. split; [discriminate|exact Hin1]. }
  destruct Hcases as [->|[Hne Hin']].
  - exists 0. left. reflexivity.
  - pose proof (read_line_raw_size _ _ _ E Hne) as Hsz.
    destruct (IH s' Hin' ltac:(lia)) as [n Hn]. exists n. destruct r; try contradiction; right; exact Hn.
Qed.

Theorem raw_reads_fail s : In Fail (future s) -> exists n, In (RErr IoFail n) (raw_reads s).
Proof. intros H. apply raw_reads_fuel_fail; [exact H|lia]. Qed.
