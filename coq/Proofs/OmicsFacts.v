(** L1: omics arithmetic in closed form through "the point at strand-directed offset k". *)
Require Import CF.Proofs.Tac CF.Model.Omics.

Definition wf_ival (i : ival) := match istr i with Pos => ia i <= ib i | Neg => ib i <= ia i end.
Definition in_u64 (i : ival) := ia i <= U64MAX /\ ib i <= U64MAX.
Definition dirf (s : strand) (p m : N) : N := match s with Pos => p + m | Neg => p - m end.
Definition len (i : ival) : N := count_entities i.
(** the coordinate at strand-directed offset [k] from the start of [i] *)
Definition pt (i : ival) (k : N) : coord := {| cctg := ictg i; cstr := istr i; cpos := dirf (istr i) (ia i) k |}.
(** the sub-interval of [i] between offsets [k1 <= k2] *)
Definition sub (i : ival) (k1 k2 : N) : ival :=
  {| ictg := ictg i; istr := istr i; ia := dirf (istr i) (ia i) k1; ib := dirf (istr i) (ia i) k2 |}.
(** how far a pointer starting at [ia i] can move forward before leaving the u64 range *)
Definition room (i : ival) : N := match istr i with Pos => U64MAX - ia i | Neg => ia i end.

Lemma contains_pt i k : wf_ival i -> k <= len i -> contains_coordinate i (pt i k) = true.
Proof.
  unfold wf_ival, len, count_entities, dist, contains_coordinate, pt, dirf. cbn [cctg cstr cpos].
  rewrite contig_eqb_refl, strand_eqb_refl. destruct (istr i); cbn [andb]; lia.
Qed.
Lemma contains_is_pt i c : wf_ival i -> contains_coordinate i c = true ->
  exists k, k <= len i /\ c = pt i k /\ k = dist (cpos c) (ia i).
Proof.
  unfold wf_ival, len, count_entities, dist, contains_coordinate, pt, dirf.
  intros Hw H. apply andb_true_iff in H as [H H3]. apply andb_true_iff in H as [H1 H2].
  apply contig_eqb_eq in H1. apply strand_eqb_eq in H2. destruct c as [cc cs cp]; cbn [cctg cstr cpos] in *. subst cc cs.
  exists (N.max cp (ia i) - N.min cp (ia i)). destruct (istr i); (split; [lia|split; [f_equal; lia|reflexivity]]).
Qed.
Lemma offset_pt i k : wf_ival i -> k <= len i -> coordinate_offset i (pt i k) = Some k.
Proof.
  intros Hw Hk. unfold coordinate_offset. rewrite contains_pt by assumption. f_equal.
  revert Hw Hk. unfold wf_ival, len, count_entities, dist, pt, dirf. cbn [cpos]. destruct (istr i); lia.
Qed.
Lemma move_forward_pt i k m : wf_ival i -> in_u64 i -> k + m <= len i -> move_forward (pt i k) m = Some (pt i (k + m)).
Proof.
  intros Hw [H1 H2] Hk. unfold move_forward. destruct (m =? 0) eqn:E.
  - f_equal. f_equal. lia.
  - revert Hw Hk H1 H2. unfold wf_ival, len, count_entities, dist, pt, dirf, checked_add, checked_sub, U64MAX.
    cbn [cctg cstr cpos]. destruct (istr i); intros.
    + destruct (ia i + k + m <=? 18446744073709551615) eqn:F; [|lia]. cbn [option_map]. do 2 f_equal. lia.
    + destruct (m <=? ia i - k) eqn:F; [|lia]. cbn [option_map]. do 2 f_equal. lia.
Qed.
Lemma move_backward_pt i k m : wf_ival i -> in_u64 i -> m <= k -> k <= len i -> move_backward (pt i k) m = Some (pt i (k - m)).
Proof.
  intros Hw [H1 H2] Hm Hk. unfold move_backward. destruct (m =? 0) eqn:E.
  - f_equal. f_equal. lia.
  - revert Hw Hk Hm H1 H2. unfold wf_ival, len, count_entities, dist, pt, dirf, checked_add, checked_sub, U64MAX.
    cbn [cctg cstr cpos]. destruct (istr i); intros.
    + destruct (m <=? ia i + k) eqn:F; [|lia]. cbn [option_map]. do 2 f_equal. lia.
    + destruct (ia i - k + m <=? 18446744073709551615) eqn:F; [|lia]. cbn [option_map]. do 2 f_equal. lia.
Qed.
Lemma istart_pt i : istart i = pt i 0.
Proof. unfold istart, pt, dirf. f_equal. destruct (istr i); lia. Qed.
Lemma iend_pt i : wf_ival i -> iend i = pt i (len i).
Proof. unfold wf_ival, iend, pt, dirf, len, count_entities, dist. intros H. f_equal. destruct (istr i); lia. Qed.
Lemma at_offset_pt i k : wf_ival i -> in_u64 i -> k <= len i -> coordinate_at_offset i k = Some (pt i k).
Proof.
  intros Hw Hu Hk. unfold coordinate_at_offset. rewrite istart_pt, move_forward_pt by (auto; lia).
  replace (0 + k) with k by lia. rewrite contains_pt; auto.
Qed.
Lemma at_offset_out i k : wf_ival i -> in_u64 i -> len i < k -> coordinate_at_offset i k = None.
Proof.
  intros Hw [H1 H2] Hk. unfold coordinate_at_offset, move_forward, istart. cbn [cctg cstr cpos].
  destruct (k =? 0) eqn:E; [lia|].
  revert Hw Hk. unfold wf_ival, len, count_entities, dist, contains_coordinate, checked_add, checked_sub.
  destruct (istr i) eqn:Es; intros.
  - destruct (ia i + k <=? U64MAX) eqn:G; cbn [option_map]; [|reflexivity]. cbn [cctg cstr cpos].
    rewrite contig_eqb_refl. cbn [strand_eqb andb].
    destruct ((ia i <=? ia i + k) && (ia i + k <=? ib i)) eqn:F; [lia|reflexivity].
  - destruct (k <=? ia i) eqn:G; cbn [option_map]; [|reflexivity]. cbn [cctg cstr cpos].
    rewrite contig_eqb_refl. cbn [strand_eqb andb].
    destruct ((ia i - k <=? ia i) && (ib i <=? ia i - k)) eqn:F; [lia|reflexivity].
Qed.
Lemma try_new_pt i k1 k2 : wf_ival i -> k1 <= k2 -> k2 <= len i ->
  ival_try_new (pt i k1) (pt i k2) = Ok (sub i k1 k2).
Proof.
  unfold wf_ival, len, count_entities, dist, ival_try_new, pt, sub, dirf. cbn [cctg cstr cpos].
  rewrite contig_eqb_refl, strand_eqb_refl. cbn [negb]. destruct (istr i); intros.
  - destruct (ia i + k2 <? ia i + k1) eqn:E; [lia|reflexivity].
  - destruct (ia i - k1 <? ia i - k2) eqn:E; [lia|reflexivity].
Qed.

Lemma len_sub i k1 k2 : wf_ival i -> k1 <= k2 -> k2 <= len i -> len (sub i k1 k2) = k2 - k1.
Proof. unfold wf_ival, len, count_entities, dist, sub, dirf. cbn [ia ib istr]. destruct (istr i); lia. Qed.
Lemma istart_sub i k1 k2 : istart (sub i k1 k2) = pt i k1. Proof. reflexivity. Qed.
Lemma iend_sub i k1 k2 : iend (sub i k1 k2) = pt i k2. Proof. reflexivity. Qed.
Lemma wf_sub i k1 k2 : wf_ival i -> k1 <= k2 -> k2 <= len i -> wf_ival (sub i k1 k2).
Proof. unfold wf_ival, len, count_entities, dist, sub, dirf. cbn [ia ib istr]. destruct (istr i); lia. Qed.
Lemma in_u64_sub i k1 k2 : wf_ival i -> in_u64 i -> k1 <= k2 -> k2 <= len i -> in_u64 (sub i k1 k2).
Proof. unfold wf_ival, in_u64, len, count_entities, dist, sub, dirf. cbn [ia ib istr]. destruct (istr i); lia. Qed.
Lemma sub_full i : wf_ival i -> sub i 0 (len i) = i.
Proof.
  unfold wf_ival, sub, len, count_entities, dist, dirf. intros H. destruct i as [c s a b]; cbn [ictg istr ia ib] in *.
  f_equal; destruct s; lia.
Qed.
Lemma sub_sub i a b c d : wf_ival i -> a <= b -> b <= len i -> c <= d -> d <= b - a ->
  sub (sub i a b) c d = sub i (a + c) (a + d).
Proof.
  unfold wf_ival, sub, len, count_entities, dist, dirf. cbn [ictg istr ia ib]. intros. f_equal; destruct (istr i); lia.
Qed.
Lemma pt_sub i a b k : wf_ival i -> a <= b -> b <= len i -> k <= b - a -> pt (sub i a b) k = pt i (a + k).
Proof.
  unfold wf_ival, pt, sub, len, count_entities, dist, dirf. cbn [ictg istr ia ib]. intros. f_equal; destruct (istr i); lia.
Qed.

(** generalised move lemmas: any offset within the room *)
Lemma len_le_room i : wf_ival i -> in_u64 i -> len i <= room i.
Proof. unfold wf_ival, in_u64, len, count_entities, dist, room, U64MAX. destruct (istr i); lia. Qed.

Lemma move_forward_room i k m : in_u64 i -> k <= room i ->
  move_forward (pt i k) m = if room i <? k + m then None else Some (pt i (k + m)).
Proof.
  intros [H1 H2] Hk. unfold move_forward. destruct (m =? 0) eqn:E.
  - destruct (room i <? k + m) eqn:F; [lia|]. do 2 f_equal. lia.
  - revert Hk H1 H2. unfold room, pt, dirf, checked_add, checked_sub, U64MAX. cbn [cctg cstr cpos].
    destruct (istr i); intros.
    + destruct (ia i + k + m <=? 18446744073709551615) eqn:F; destruct (18446744073709551615 - ia i <? k + m) eqn:G; try lia; cbn [option_map]; try reflexivity.
      do 2 f_equal. lia.
    + destruct (m <=? ia i - k) eqn:F; destruct (ia i <? k + m) eqn:G; try lia; cbn [option_map]; try reflexivity.
      do 2 f_equal. lia.
Qed.

Lemma try_new_room i k1 k2 : k1 <= k2 -> k2 <= room i ->
  ival_try_new (pt i k1) (pt i k2) = Ok (sub i k1 k2).
Proof.
  unfold room, ival_try_new, pt, sub, dirf, U64MAX. cbn [cctg cstr cpos].
  rewrite contig_eqb_refl, strand_eqb_refl. cbn [negb]. destruct (istr i); intros.
  - destruct (ia i + k2 <? ia i + k1) eqn:E; [lia|reflexivity].
  - destruct (ia i - k1 <? ia i - k2) eqn:E; [lia|reflexivity].
Qed.

Lemma len_sub_room i k1 k2 : in_u64 i -> k1 <= k2 -> k2 <= room i -> count_entities (sub i k1 k2) = k2 - k1.
Proof. unfold in_u64, room, count_entities, dist, sub, dirf, U64MAX. cbn [ia ib istr]. destruct (istr i); lia. Qed.

Lemma pt_eq_end i k : wf_ival i -> in_u64 i -> k <= room i -> coord_eqb (pt i k) (iend i) = (k =? len i).
Proof.
  unfold coord_eqb, pt, iend. cbn [cctg cstr cpos]. rewrite contig_eqb_refl, strand_eqb_refl. cbn [andb].
  unfold wf_ival, in_u64, room, len, count_entities, dist, dirf, U64MAX. destruct (istr i); lia.
Qed.

(** [ival_try_new] builds well-formed intervals, and every well-formed interval is one. *)
Lemma try_new_wf s e i : ival_try_new s e = Ok i -> wf_ival i /\ istart i = s /\ iend i = e.
Proof.
  unfold ival_try_new, wf_ival, istart, iend.
  destruct (contig_eqb (cctg s) (cctg e)) eqn:E1; cbn [negb]; [|discriminate].
  destruct (strand_eqb (cstr s) (cstr e)) eqn:E2; cbn [negb]; [|discriminate].
  apply contig_eqb_eq in E1. apply strand_eqb_eq in E2.
  destruct s as [sc ss sp], e as [ec es ep]; cbn [cctg cstr cpos] in *. subst ec es.
  destruct ss.
  - destruct (ep <? sp) eqn:F; [discriminate|]. intros [= <-]. cbn. repeat split; lia.
  - destruct (sp <? ep) eqn:F; [discriminate|]. intros [= <-]. cbn. repeat split; lia.
Qed.
