(** Consequences of the closed form: C01, C02, C09, C11, C16. *)
From Coq Require Import Sorting.Permutation Sorting.Sorted.
Require Import CF.Proofs.Tac CF.Model.Omics CF.Model.Pair CF.Model.Records CF.Model.Reader CF.Model.Sections
  CF.Model.StepThrough CF.Model.Lapper CF.Model.Machine
  CF.Proofs.OmicsFacts CF.Proofs.PairFacts CF.Proofs.RecordsFacts CF.Proofs.StepFacts CF.Proofs.LapperFacts
  CF.Spec.Align CF.Proofs.AlignFacts CF.Proofs.MachineFacts.

Lemma count_pos_ex {A} (f : A -> bool) l : (0 < count f l)%nat -> exists x, In x l /\ f x = true.
Proof.
  unfold count. induction l as [|x l IH]; cbn [filter]; [cbn; lia|].
  destruct (f x) eqn:E; [intros _; exists x; split; [left; reflexivity|exact E]|].
  intros H. destruct (IH H) as (y & Hy & Ey). exists y. split; [right; exact Hy|exact Ey].
Qed.
Lemma count_in_pos {A} (f : A -> bool) l x : In x l -> f x = true -> (0 < count f l)%nat.
Proof.
  unfold count. induction l as [|y l IH]; cbn [filter In]; [contradiction|].
  intros [->|H] E; [rewrite E; cbn; lia|]. destruct (f y); cbn [length]; [lia|apply IH; assumption].
Qed.

Lemma mult_file_pos f rb qb : (0 < mult_file f rb qb)%nat ->
  exists sec blk, In sec f /\ In blk (sec_blocks sec) /\ block_maps (shdr sec) blk rb qb = true.
Proof.
  induction f as [|sec r IH]; cbn [mult_file]; [lia|]. intros H.
  destruct (count (fun blk => block_maps (shdr sec) blk rb qb) (sec_blocks sec)) eqn:E.
  - destruct (IH ltac:(lia)) as (s & blk & H1 & H2 & H3). exists s, blk. repeat split; auto. right; exact H1.
  - destruct (count_pos_ex _ _ ltac:(rewrite E; lia)) as (blk & H1 & H2). exists sec, blk. repeat split; auto. left; reflexivity.
Qed.

(** the i-th base pairing of a well-formed pair *)
Definition rbase (p : pair) (i : N) : base := {| bctg := ictg (pref p); bstr := istr (pref p); bidx := nth_base (pref p) i |}.
Definition qbase (p : pair) (i : N) : base := {| bctg := ictg (pqry p); bstr := istr (pqry p); bidx := nth_base (pqry p) i |}.
Lemma pair_maps_nth p i : wf_pair p -> i < len (pref p) -> pair_maps p (rbase p i) (qbase p i) = true.
Proof.
  intros (Hr & _) Hi. unfold pair_maps, rbase, qbase. cbn [bctg bstr bidx].
  rewrite !contig_eqb_refl, !strand_eqb_refl. cbn [andb]. rewrite base_off_nth by assumption. apply N.eqb_refl.
Qed.

(** every pair of an answer is a clipped indexed pair *)
Lemma liftover_result_in f m iv ps : Forall sec_ok f -> build_secs f = Val (Ok m) -> wf_ival iv ->
  liftover m iv = Val (Some ps) ->
  Forall (fun p => exists P, In P (all_pairs f) /\ wf_pair P /\ ictg (pref P) = ictg iv /\ istr (pref P) = istr iv /\
                             overlaps (pref P) iv = true /\ nonzero P = true /\ p = clip P iv) ps.
Proof.
  intros Hf Hb Hiv. rewrite (liftover_build_closed f m iv Hf Hb Hiv).
  destruct (build_secs_inv f m Hf Hb) as (b & _ & _ & Hs & _). pose proof (all_pairs_wf f Hf Hs) as Hw.
  unfold opt. destruct (map _ _) as [|x l] eqn:E; [discriminate|]. intros [= <-]. rewrite <- E.
  rewrite Forall_forall in *. intros p Hp. apply in_map_iff in Hp as (P & <- & HP).
  apply filter_In in HP as [HP Hh]. apply in_map_iff in HP as (x0 & <- & Hx0).
  eapply Permutation_in in Hx0; [|symmetry; apply sort_perm].
  apply in_map_iff in Hx0 as (P & <- & HP). apply filter_In in HP as [HP Hsel].
  rewrite lval_iv_of_pair in *. unfold hitb in Hh. apply andb_true_iff in Hh as [H1 H2]. apply strand_eqb_eq in H1.
  unfold sel, onctg in Hsel. apply andb_true_iff in Hsel as [H3 H4]. apply contig_eqb_eq in H4.
  exists P. split; [exact HP|]. split; [apply Hw; exact HP|]. split; [exact H4|]. split; [exact H1|].
  split; [exact H2|]. split; [exact H3|reflexivity].
Qed.

(** C01: soundness *)
Theorem liftover_sound f m iv ps : Forall sec_ok f -> build_secs f = Val (Ok m) -> wf_ival iv ->
  liftover m iv = Val (Some ps) ->
  Forall (fun p => wf_pair p /\
            forall i, i < len (pref p) ->
              exists sec blk, In sec f /\ In blk (sec_blocks sec) /\ block_maps (shdr sec) blk (rbase p i) (qbase p i) = true) ps.
Proof.
  intros Hf Hb Hiv Hl.
  destruct (liftover_multiset f m iv Hf Hb Hiv) as (r & Hr & Hm). rewrite Hl in Hr. injection Hr as <-. cbn [opt_list] in Hm.
  pose proof (liftover_result_in f m iv ps Hf Hb Hiv Hl) as Hin.
  rewrite Forall_forall in *. intros p Hp. destruct (Hin p Hp) as (P & _ & HwP & Hc & Hs & Ho & _ & ->).
  pose proof HwP as (HrP & _).
  assert (Hw: wf_pair (clip P iv)) by (apply clip_wf; auto; apply overlaps_meets; auto).
  split; [exact Hw|]. intros i Hi.
  pose proof (pair_maps_nth _ i Hw Hi) as Hpm.
  assert (Hpos: (0 < mult_res ps (rbase (clip P iv) i) (qbase (clip P iv) i))%nat).
  { unfold mult_res. eapply count_in_pos; [exact Hp|exact Hpm]. }
  rewrite Hm in Hpos. unfold mult_spec in Hpos. destruct (base_in iv _); [|lia].
  apply mult_file_pos. exact Hpos.
Qed.

(** the readable meaning of [block_maps] *)
Lemma block_maps_iff h T Q n rb qb : T + n <= ssize (href h) ->
  (block_maps h (T, Q, n) rb qb = true <->
   bctg rb = sname (href h) /\ bstr rb = sstrand (href h) /\ bctg qb = sname (hqry h) /\ bstr qb = sstrand (hqry h) /\
   exists i, i < n /\ bidx rb = fwd (sstrand (href h)) (ssize (href h)) (T + i) /\
                    bidx qb = fwd (sstrand (hqry h)) (ssize (hqry h)) (Q + i)).
Proof.
  intros Hsz. unfold block_maps. split.
  - intros H. apply andb_true_iff in H as [H Hm]. apply andb_true_iff in H as [H Hs2]. apply andb_true_iff in H as [H Hc2].
    apply andb_true_iff in H as [Hc1 Hs1].
    apply contig_eqb_eq in Hc1. apply strand_eqb_eq in Hs1. apply contig_eqb_eq in Hc2. apply strand_eqb_eq in Hs2.
    destruct (local_off _ _ T n (bidx rb)) as [i|] eqn:E; [|discriminate]. apply N.eqb_eq in Hm.
    repeat split; auto. exists i. pose proof (local_off_lt _ _ _ _ _ _ E) as Hi. split; [exact Hi|].
    split; [|lia]. unfold local_off, fwd in *. destruct (sstrand (href h)).
    + destruct ((T <=? bidx rb) && (bidx rb <? T + n)) eqn:F; [|discriminate]. injection E as <-. lia.
    + destruct ((bidx rb <? ssize (href h)) && (T <=? ssize (href h) - 1 - bidx rb) && (ssize (href h) - 1 - bidx rb <? T + n)) eqn:F; [|discriminate].
      injection E as <-. lia.
  - intros (H1 & H2 & H3 & H4 & i & Hi & H5 & H6). rewrite <- H1, <- H2, <- H3, <- H4.
    rewrite !contig_eqb_refl, !strand_eqb_refl. cbn [andb].
    assert (E: local_off (bstr rb) (ssize (href h)) T n (bidx rb) = Some i).
    { rewrite H5, <- H2. unfold local_off, fwd. destruct (bstr rb).
      - destruct ((T <=? T + i) && (T + i <? T + n)) eqn:F; [f_equal; lia|exfalso; lia].
      - destruct ((ssize (href h) - 1 - (T + i) <? ssize (href h)) && (T <=? ssize (href h) - 1 - (ssize (href h) - 1 - (T + i)))
                  && (ssize (href h) - 1 - (ssize (href h) - 1 - (T + i)) <? T + n)) eqn:F; [f_equal; lia|exfalso; lia]. }
    rewrite E. rewrite H6, <- H4. apply N.eqb_refl.
Qed.

(** ---------- C02: 'no mapping' iff nothing aligns ---------- *)
Lemma clip_len_pos P iv : wf_pair P -> wf_ival iv -> istr (pref P) = istr iv -> overlaps (pref P) iv = true ->
  nonzero P = true -> 0 < len iv -> 0 < len (pref (clip P iv)).
Proof.
  intros (Hr & _) Hiv Hs Ho Hn Hl. unfold clip; cbn [pref].
  pose proof (overlaps_meets _ _ Hr Hiv (eq_sym Hs) Ho) as Hm.
  destruct (offs_ok _ _ Hr Hiv (eq_sym Hs) Hm) as [H12 H2]. rewrite len_sub by assumption.
  revert Ho Hn Hl H12 H2 Hr Hiv. unfold overlaps, fwd_lo, fwd_hi, nonzero, off1, off2, len, count_entities, dist, wf_ival.
  rewrite <- Hs. destruct (istr (pref P)); intros; lia.
Qed.

Theorem liftover_none_iff f m iv : Forall sec_ok f -> build_secs f = Val (Ok m) -> wf_ival iv -> 0 < len iv ->
  (liftover m iv = Val None <-> forall rb qb, mult_spec f iv rb qb = 0%nat).
Proof.
  intros Hf Hb Hiv Hl. destruct (liftover_multiset f m iv Hf Hb Hiv) as (r & Hr & Hm). split.
  - intros H. rewrite H in Hr. injection Hr as <-. intros rb qb. rewrite <- Hm. reflexivity.
  - intros H0. destruct r as [ps|]; [|exact Hr]. exfalso.
    pose proof (liftover_result_in f m iv ps Hf Hb Hiv Hr) as Hin.
    destruct ps as [|p l].
    { rewrite (liftover_build_closed f m iv Hf Hb Hiv) in Hr. unfold opt in Hr. destruct (map _ _); discriminate. }
    inversion Hin as [|? ? (P & _ & HwP & Hc & Hs & Ho & Hn & ->) _]; subst.
    pose proof HwP as (HrP & _).
    assert (Hw: wf_pair (clip P iv)) by (apply clip_wf; auto; apply overlaps_meets; auto).
    pose proof (clip_len_pos P iv HwP Hiv Hs Ho Hn Hl) as Hpos.
    pose proof (pair_maps_nth _ 0 Hw Hpos) as Hpm.
    specialize (Hm (rbase (clip P iv) 0) (qbase (clip P iv) 0)). rewrite H0 in Hm. cbn [opt_list] in Hm.
    unfold mult_res in Hm.
    pose proof (count_in_pos (fun p => pair_maps p (rbase (clip P iv) 0) (qbase (clip P iv) 0)) (clip P iv :: l) (clip P iv)
                  (or_introl eq_refl) Hpm). lia.
Qed.

(** ---------- C09: lifting an interval equals lifting its parts ---------- *)
(** [iv] cut at position [c] (between its ends, in strand order) *)
Definition part1 (iv : ival) (c : N) : ival := {| ictg := ictg iv; istr := istr iv; ia := ia iv; ib := c |}.
Definition part2 (iv : ival) (c : N) : ival := {| ictg := ictg iv; istr := istr iv; ia := c; ib := ib iv |}.
Definition cut_ok (iv : ival) (c : N) : Prop :=
  match istr iv with Pos => ia iv <= c /\ c <= ib iv | Neg => ib iv <= c /\ c <= ia iv end.

Lemma base_in_split iv c rb : wf_ival iv -> cut_ok iv c ->
  base_in iv rb = base_in (part1 iv c) rb || base_in (part2 iv c) rb /\
  (base_in (part1 iv c) rb && base_in (part2 iv c) rb = false).
Proof.
  unfold wf_ival, cut_ok, base_in, base_off, part1, part2. cbn [ictg istr ia ib].
  destruct (contig_eqb (ictg iv) (bctg rb)); cbn [andb]; [|split; reflexivity].
  destruct (strand_eqb (istr iv) (bstr rb)); cbn [andb]; [|split; reflexivity].
  destruct (istr iv); intros Hw Hc.
  - destruct ((ia iv <=? bidx rb) && (bidx rb <? ib iv)) eqn:E, ((ia iv <=? bidx rb) && (bidx rb <? c)) eqn:E1,
      ((c <=? bidx rb) && (bidx rb <? ib iv)) eqn:E2; cbn; split; try reflexivity; exfalso; lia.
  - destruct ((ib iv <=? bidx rb) && (bidx rb <? ia iv)) eqn:E, ((c <=? bidx rb) && (bidx rb <? ia iv)) eqn:E1,
      ((ib iv <=? bidx rb) && (bidx rb <? c)) eqn:E2; cbn; split; try reflexivity; exfalso; lia.
Qed.
Lemma parts_wf iv c : wf_ival iv -> cut_ok iv c -> wf_ival (part1 iv c) /\ wf_ival (part2 iv c).
Proof. unfold wf_ival, cut_ok, part1, part2. cbn [istr ia ib]. destruct (istr iv); lia. Qed.

Theorem liftover_split f m iv c : Forall sec_ok f -> build_secs f = Val (Ok m) -> wf_ival iv -> cut_ok iv c ->
  exists r r1 r2, liftover m iv = Val r /\ liftover m (part1 iv c) = Val r1 /\ liftover m (part2 iv c) = Val r2 /\
    forall rb qb, mult_res (opt_list r) rb qb = (mult_res (opt_list r1) rb qb + mult_res (opt_list r2) rb qb)%nat.
Proof.
  intros Hf Hb Hiv Hc. destruct (parts_wf iv c Hiv Hc) as [W1 W2].
  destruct (liftover_multiset f m iv Hf Hb Hiv) as (r & Hr & Hm).
  destruct (liftover_multiset f m _ Hf Hb W1) as (r1 & Hr1 & Hm1).
  destruct (liftover_multiset f m _ Hf Hb W2) as (r2 & Hr2 & Hm2).
  exists r, r1, r2. repeat split; auto. intros rb qb. rewrite Hm, Hm1, Hm2. unfold mult_spec.
  destruct (base_in_split iv c rb Hiv Hc) as [-> Hd].
  destruct (base_in (part1 iv c) rb), (base_in (part2 iv c) rb); cbn in *; try discriminate; lia.
Qed.

(** a position maps identically whether asked for alone or inside a larger interval *)
Theorem liftover_pointwise f m iv iv' : Forall sec_ok f -> build_secs f = Val (Ok m) -> wf_ival iv -> wf_ival iv' ->
  exists r r', liftover m iv = Val r /\ liftover m iv' = Val r' /\
    forall rb qb, base_in iv rb = true -> base_in iv' rb = true ->
      mult_res (opt_list r) rb qb = mult_res (opt_list r') rb qb.
Proof.
  intros Hf Hb Hiv Hiv'.
  destruct (liftover_multiset f m iv Hf Hb Hiv) as (r & Hr & Hm).
  destruct (liftover_multiset f m iv' Hf Hb Hiv') as (r' & Hr' & Hm').
  exists r, r'. repeat split; auto. intros rb qb H1 H2. rewrite Hm, Hm'. unfold mult_spec. rewrite H1, H2. reflexivity.
Qed.

(** no pair reaches outside the requested interval *)
Theorem liftover_inside f m iv ps : Forall sec_ok f -> build_secs f = Val (Ok m) -> wf_ival iv ->
  liftover m iv = Val (Some ps) ->
  Forall (fun p => ictg (pref p) = ictg iv /\ istr (pref p) = istr iv /\
                   fwd_lo iv <= fwd_lo (pref p) /\ fwd_hi (pref p) <= fwd_hi iv) ps.
Proof.
  intros Hf Hb Hiv Hl. pose proof (liftover_result_in f m iv ps Hf Hb Hiv Hl) as Hin.
  eapply Forall_impl; [|exact Hin]. cbn beta. intros p (P & _ & HwP & Hc & Hs & Ho & _ & ->).
  pose proof HwP as (HrP & _). pose proof (overlaps_meets _ _ HrP Hiv (eq_sym Hs) Ho) as Hm.
  rewrite clip_ref_is_inter by auto. revert Hm HrP Hiv. unfold inter, meets, fwd_lo, fwd_hi, wf_ival. rewrite <- Hs.
  destruct (istr (pref P)); cbn [ictg istr ia ib]; intros; repeat split; auto; lia.
Qed.

(** ---------- C11: chains act independently; order ---------- *)
Lemma mult_file_app f1 f2 rb qb : mult_file (f1 ++ f2) rb qb = (mult_file f1 rb qb + mult_file f2 rb qb)%nat.
Proof. induction f1 as [|s r IH]; cbn [app mult_file]; [reflexivity|]. rewrite IH. lia. Qed.
Lemma mult_file_perm f f' rb qb : Permutation f f' -> mult_file f rb qb = mult_file f' rb qb.
Proof.
  induction 1 as [|x l l' _ IH|x y l|l l' l'' _ IH1 _ IH2]; cbn [mult_file]; try lia.
Qed.

Theorem liftover_union f1 f2 m m1 m2 iv : Forall sec_ok f1 -> Forall sec_ok f2 ->
  build_secs (f1 ++ f2) = Val (Ok m) -> build_secs f1 = Val (Ok m1) -> build_secs f2 = Val (Ok m2) -> wf_ival iv ->
  exists r r1 r2, liftover m iv = Val r /\ liftover m1 iv = Val r1 /\ liftover m2 iv = Val r2 /\
    forall rb qb, mult_res (opt_list r) rb qb = (mult_res (opt_list r1) rb qb + mult_res (opt_list r2) rb qb)%nat.
Proof.
  intros H1 H2 Hb Hb1 Hb2 Hiv.
  assert (H12: Forall sec_ok (f1 ++ f2)) by (apply Forall_app; split; assumption).
  destruct (liftover_multiset _ m iv H12 Hb Hiv) as (r & Hr & Hm).
  destruct (liftover_multiset _ m1 iv H1 Hb1 Hiv) as (r1 & Hr1 & Hm1).
  destruct (liftover_multiset _ m2 iv H2 Hb2 Hiv) as (r2 & Hr2 & Hm2).
  exists r, r1, r2. repeat split; auto. intros rb qb. rewrite Hm, Hm1, Hm2. unfold mult_spec.
  destruct (base_in iv rb); [apply mult_file_app|reflexivity].
Qed.

Theorem liftover_perm f f' m m' iv : Forall sec_ok f -> Permutation f f' ->
  build_secs f = Val (Ok m) -> build_secs f' = Val (Ok m') -> wf_ival iv ->
  exists r r', liftover m iv = Val r /\ liftover m' iv = Val r' /\
    forall rb qb, mult_res (opt_list r) rb qb = mult_res (opt_list r') rb qb.
Proof.
  intros H1 Hp Hb Hb' Hiv.
  assert (H2: Forall sec_ok f') by (rewrite Forall_forall in *; intros x Hx; apply H1; eapply Permutation_in; [symmetry; exact Hp|exact Hx]).
  destruct (liftover_multiset _ m iv H1 Hb Hiv) as (r & Hr & Hm).
  destruct (liftover_multiset _ m' iv H2 Hb' Hiv) as (r' & Hr' & Hm').
  exists r, r'. repeat split; auto. intros rb qb. rewrite Hm, Hm'. unfold mult_spec.
  destruct (base_in iv rb); [apply mult_file_perm; exact Hp|reflexivity].
Qed.

(** the pairs of one answer are ordered by non-decreasing forward start of their reference interval *)
Lemma sorted_filter {A} (R : A -> A -> Prop) (f : A -> bool) l : StronglySorted R l -> StronglySorted R (filter f l).
Proof.
  induction 1 as [|x l Hs IH Hall]; cbn [filter]; [constructor|].
  destruct (f x); [|exact IH]. constructor; [exact IH|].
  rewrite Forall_forall in *. intros y Hy. apply filter_In in Hy as [Hy _]. auto.
Qed.
Lemma sorted_map {A B} (R : A -> A -> Prop) (S : B -> B -> Prop) (g : A -> B) l :
  (forall x y, R x y -> S (g x) (g y)) -> StronglySorted R l -> StronglySorted S (map g l).
Proof.
  intros H. induction 1 as [|x l Hs IH Hall]; cbn [map]; [constructor|]. constructor; [exact IH|].
  rewrite Forall_forall in *. intros y Hy. apply in_map_iff in Hy as (z & <- & Hz). auto.
Qed.

Lemma fwd_lo_clip P iv : wf_pair P -> wf_ival iv -> istr (pref P) = istr iv -> overlaps (pref P) iv = true ->
  fwd_lo (pref (clip P iv)) = N.max (fwd_lo (pref P)) (fwd_lo iv).
Proof.
  intros HwP Hiv Hs Ho. pose proof HwP as (HrP & _). pose proof (overlaps_meets _ _ HrP Hiv (eq_sym Hs) Ho) as Hm.
  rewrite clip_ref_is_inter by auto. revert Hm HrP Hiv. unfold inter, meets, fwd_lo, wf_ival. rewrite <- Hs.
  destruct (istr (pref P)); cbn [istr ia ib]; intros; lia.
Qed.

Theorem liftover_sorted f m iv ps : Forall sec_ok f -> build_secs f = Val (Ok m) -> wf_ival iv ->
  liftover m iv = Val (Some ps) -> StronglySorted (fun p q => fwd_lo (pref p) <= fwd_lo (pref q)) ps.
Proof.
  intros Hf Hb Hiv. rewrite (liftover_build_closed f m iv Hf Hb Hiv).
  destruct (build_secs_inv f m Hf Hb) as (b & _ & _ & Hs & _). pose proof (all_pairs_wf f Hf Hs) as Hw.
  unfold opt. destruct (map _ _) as [|x0 l] eqn:E; [discriminate|]. intros [= <-]. rewrite <- E. clear E x0 l.
  set (src := map iv_of_pair (filter (sel (ictg iv)) (all_pairs f))).
  assert (Hsrc: Forall (fun x => wf_pair (lval x) /\ x = iv_of_pair (lval x)) (sort src)).
  { rewrite Forall_forall in *. intros x Hx. eapply Permutation_in in Hx; [|symmetry; apply sort_perm].
    apply in_map_iff in Hx as (p & <- & Hp). apply filter_In in Hp as [Hp _]. rewrite lval_iv_of_pair. auto. }
  pose proof (sort_sorted _ src) as Hss. unfold sorted_start in Hss.
  (* sorted by lstart = fwd_lo of the pair's reference *)
  assert (H1: StronglySorted (fun p q => fwd_lo (pref p) <= fwd_lo (pref q) /\ wf_pair p /\ wf_pair q) (map lval (sort src))).
  { revert Hsrc Hss. generalize (sort src). intros l0 Hall Hsorted. induction Hsorted as [|x l0 Hs0 IH Hx]; cbn [map]; [constructor|].
    inversion Hall as [|? ? (Hwx & Hex) Hall']; subst. constructor; [apply IH; exact Hall'|].
    rewrite Forall_forall in *. intros q Hq. apply in_map_iff in Hq as (y & <- & Hy). specialize (Hx y Hy).
    destruct (Hall' y Hy) as (Hwy & Hey). rewrite Hex, Hey in Hx. unfold iv_of_pair in Hx. rewrite !fwd_extent_eq in Hx. cbn [lstart] in Hx.
    auto. }
  apply (sorted_filter _ (hitb iv)) in H1.
  assert (H2: StronglySorted (fun p q => (fwd_lo (pref p) <= fwd_lo (pref q) /\ wf_pair p /\ wf_pair q) /\ hitb iv p = true /\ hitb iv q = true)
                (filter (hitb iv) (map lval (sort src)))).
  { revert H1. generalize (map lval (sort src)). intros l0. induction l0 as [|x l0 IH]; cbn [filter]; [constructor|].
    destruct (hitb iv x) eqn:Ex; [|exact IH]. intros H. inversion H as [|? ? Hs0 Hx]; subst. constructor; [apply IH; exact Hs0|].
    rewrite Forall_forall in *. intros y Hy. pose proof Hy as Hy'. apply filter_In in Hy' as [_ Ey]. auto. }
  eapply sorted_map; [|exact H2]. cbn beta. intros p q ((Hle & Hwp & Hwq) & Hp & Hq).
  unfold hitb in Hp, Hq. apply andb_true_iff in Hp as [Sp Op]. apply andb_true_iff in Hq as [Sq Oq].
  apply strand_eqb_eq in Sp, Sq. rewrite !fwd_lo_clip by auto. lia.
Qed.

(** ---------- C16: dictionaries and bounds ---------- *)
Lemma dict_get_app d k v k' : dict_get (d ++ [(k, v)]) k' =
  match dict_get d k' with Some x => Some x | None => if contig_eqb k k' then Some v else None end.
Proof.
  induction d as [|[k0 v0] r IH]; cbn [app dict_get]; [reflexivity|].
  destruct (contig_eqb k0 k'); [reflexivity|exact IH].
Qed.
Lemma dict_update_get d k v d' : dict_update d k v = Some d' ->
  forall k', dict_get d' k' = if contig_eqb k k' then Some v else dict_get d k'.
Proof.
  unfold dict_update. destruct (dict_get d k) as [v0|] eqn:E.
  - destruct (v0 =? v) eqn:Ev; [|discriminate]. intros [= <-] k'. apply N.eqb_eq in Ev. subst v0.
    destruct (contig_eqb k k') eqn:Ek; [|reflexivity]. apply contig_eqb_eq in Ek. subst. exact E.
  - intros [= <-] k'. rewrite dict_get_app. destruct (contig_eqb k k') eqn:Ek.
    + apply contig_eqb_eq in Ek. subst. rewrite E. reflexivity.
    + destruct (dict_get d k'); reflexivity.
Qed.

Lemma build_secs_loop_dicts f : Forall sec_ok f -> forall b b', build_secs_loop f b = Val (Ok b') ->
  (forall k v, dict_get (bref b') k = Some v <->
     dict_get (bref b) k = Some v \/ exists sec, In sec f /\ sname (href (shdr sec)) = k /\ ssize (href (shdr sec)) = v) /\
  (forall k v, dict_get (bqry b') k = Some v <->
     dict_get (bqry b) k = Some v \/ exists sec, In sec f /\ sname (hqry (shdr sec)) = k /\ ssize (hqry (shdr sec)) = v).
Proof.
  induction f as [|sec r IH]; intros Hf b b'; cbn [build_secs_loop].
  - intros [= <-]. split; intros k v; split; auto; intros [H|(s & [] & _)]; exact H.
  - inversion Hf as [|? ? Hs Hr]; subst. rewrite add_section_closed by assumption.
    destruct (dict_update (bqry b) _ _) as [qd|] eqn:Eq; [|discriminate].
    destruct (dict_update (bref b) _ _) as [rd|] eqn:Er; [|discriminate].
    destruct (push_items (bhm b) _) as [hm|e]; [|discriminate].
    intros H. apply IH in H as [H1 H2]; [|assumption]. cbn [bref bqry] in H1, H2.
    pose proof (dict_update_get _ _ _ _ Er) as Gr. pose proof (dict_update_get _ _ _ _ Eq) as Gq.
    split; intros k v.
    + rewrite H1, Gr. destruct (contig_eqb (sname (href (shdr sec))) k) eqn:Ek.
      * apply contig_eqb_eq in Ek. split.
        -- intros [[= <-]|(s & Hin & Hk & Hv)]; [right; exists sec; repeat split; auto; left; reflexivity|].
           right. exists s. repeat split; auto. right; exact Hin.
        -- intros [Hd|(s & [<-|Hin] & Hk & Hv)].
           ++ left. unfold dict_update in Er. rewrite Ek, Hd in Er. destruct (v =? ssize (href (shdr sec))) eqn:Ev; [|discriminate].
              apply N.eqb_eq in Ev. congruence.
           ++ left. congruence.
           ++ right. exists s. auto.
      * split.
        -- intros [Hd|(s & Hin & Hk & Hv)]; [left; exact Hd|right; exists s; repeat split; auto; right; exact Hin].
        -- intros [Hd|(s & [<-|Hin] & Hk & Hv)]; [left; exact Hd| |right; exists s; auto].
           apply contig_eqb_eq in Hk. rewrite Hk in Ek. discriminate.
    + rewrite H2, Gq. destruct (contig_eqb (sname (hqry (shdr sec))) k) eqn:Ek.
      * apply contig_eqb_eq in Ek. split.
        -- intros [[= <-]|(s & Hin & Hk & Hv)]; [right; exists sec; repeat split; auto; left; reflexivity|].
           right. exists s. repeat split; auto. right; exact Hin.
        -- intros [Hd|(s & [<-|Hin] & Hk & Hv)].
           ++ left. unfold dict_update in Eq. rewrite Ek, Hd in Eq. destruct (v =? ssize (hqry (shdr sec))) eqn:Ev; [|discriminate].
              apply N.eqb_eq in Ev. congruence.
           ++ left. congruence.
           ++ right. exists s. auto.
      * split.
        -- intros [Hd|(s & Hin & Hk & Hv)]; [left; exact Hd|right; exists s; repeat split; auto; right; exact Hin].
        -- intros [Hd|(s & [<-|Hin] & Hk & Hv)]; [left; exact Hd| |right; exists s; auto].
           apply contig_eqb_eq in Hk. rewrite Hk in Ek. discriminate.
Qed.

Theorem build_dicts f m : Forall sec_ok f -> build_secs f = Val (Ok m) ->
  (forall k v, dict_get (mref m) k = Some v <-> exists sec, In sec f /\ sname (href (shdr sec)) = k /\ ssize (href (shdr sec)) = v) /\
  (forall k v, dict_get (mqry m) k = Some v <-> exists sec, In sec f /\ sname (hqry (shdr sec)) = k /\ ssize (hqry (shdr sec)) = v).
Proof.
  intros Hf Hb. destruct (build_secs_inv f m Hf Hb) as (b & -> & Hl & _ & _).
  destruct (build_secs_loop_dicts f Hf _ _ Hl) as [H1 H2]. cbn [machine_of_bstate mref mqry].
  split; intros k v; [rewrite H1|rewrite H2]; cbn [bstate0 bref bqry dict_get]; split; auto; intros [H|H]; [discriminate|exact H|discriminate|exact H].
Qed.

(** a file declaring one contig with two sizes on one side never yields a machine *)
Theorem build_sizes_consistent f m : Forall sec_ok f -> build_secs f = Val (Ok m) ->
  forall s1 s2, In s1 f -> In s2 f ->
    (sname (href (shdr s1)) = sname (href (shdr s2)) -> ssize (href (shdr s1)) = ssize (href (shdr s2))) /\
    (sname (hqry (shdr s1)) = sname (hqry (shdr s2)) -> ssize (hqry (shdr s1)) = ssize (hqry (shdr s2))).
Proof.
  intros Hf Hb s1 s2 H1 H2. destruct (build_dicts f m Hf Hb) as [Dr Dq]. split; intros E.
  - assert (A: dict_get (mref m) (sname (href (shdr s1))) = Some (ssize (href (shdr s1)))) by (apply Dr; exists s1; auto).
    assert (B: dict_get (mref m) (sname (href (shdr s1))) = Some (ssize (href (shdr s2)))) by (apply Dr; exists s2; auto).
    congruence.
  - assert (A: dict_get (mqry m) (sname (hqry (shdr s1))) = Some (ssize (hqry (shdr s1)))) by (apply Dq; exists s1; auto).
    assert (B: dict_get (mqry m) (sname (hqry (shdr s1))) = Some (ssize (hqry (shdr s2)))) by (apply Dq; exists s2; auto).
    congruence.
Qed.

Lemma sub_bounds i a b : wf_ival i -> a <= b -> b <= len i ->
  fwd_lo i <= fwd_lo (sub i a b) /\ fwd_hi (sub i a b) <= fwd_hi i.
Proof. unfold wf_ival, fwd_lo, fwd_hi, sub, len, count_entities, dist, dirf. cbn [istr ia ib]. destruct (istr i); lia. Qed.
Lemma seq_ival_hi s : seq_ok s -> fwd_hi (seq_ival s) <= ssize s.
Proof. intros (H1 & H2 & H3). unfold fwd_hi, seq_ival, api_pos. cbn [istr ia ib]. destruct (sstrand s); lia. Qed.

(** every coordinate the machine returns lies between 0 and the reported size of its contig *)
Theorem liftover_bounds f m iv ps : Forall sec_ok f -> build_secs f = Val (Ok m) -> wf_ival iv ->
  liftover m iv = Val (Some ps) ->
  Forall (fun p => exists sec, In sec f /\
     ictg (pref p) = sname (href (shdr sec)) /\ fwd_hi (pref p) <= ssize (href (shdr sec)) /\
     dict_get (mref m) (ictg (pref p)) = Some (ssize (href (shdr sec))) /\
     ictg (pqry p) = sname (hqry (shdr sec)) /\ fwd_hi (pqry p) <= ssize (hqry (shdr sec)) /\
     dict_get (mqry m) (ictg (pqry p)) = Some (ssize (hqry (shdr sec)))) ps.
Proof.
  intros Hf Hb Hiv Hl. pose proof (liftover_result_in f m iv ps Hf Hb Hiv Hl) as Hin.
  destruct (build_secs_inv f m Hf Hb) as (b & _ & _ & Hs & _). destruct (build_dicts f m Hf Hb) as [Dr Dq].
  eapply Forall_impl; [|exact Hin]. cbn beta. intros p (P & HP & HwP & Hc & Hst & Ho & _ & ->).
  unfold all_pairs in HP. apply in_flat_map in HP as (sec & Hsec & HP).
  unfold sec_pairs in HP. apply in_map_iff in HP as ([[T Q] n] & <- & Hblk).
  rewrite Forall_forall in Hf, Hs. pose proof (Hf sec Hsec) as Hok. destruct (Hs sec Hsec) as [S1 S2].
  unfold sec_blocks in Hblk. apply blocks_local_range in Hblk.
  destruct Hok as [Hr Hq].
  destruct (seq_interval_closed _ Hr) as (_ & W1 & U1 & L1). destruct (seq_interval_closed _ Hq) as (_ & W2 & U2 & L2).
  pose proof HwP as (HrP & HqP & _ & _ & HlP).
  pose proof (overlaps_meets _ _ HrP Hiv (eq_sym Hst) Ho) as Hm.
  destruct (offs_ok _ _ HrP Hiv (eq_sym Hst) Hm) as [H12 H2].
  exists sec. split; [exact Hsec|].
  unfold clip. cbn [pref pqry].
  set (P := pair_of_block (shdr sec) (T, Q, n)) in *.
  assert (BR: fwd_hi (pref P) <= ssize (href (shdr sec))).
  { unfold P, pair_of_block; cbn [pref]. destruct (sub_bounds (seq_ival (href (shdr sec))) (T - sstart (href (shdr sec))) (T - sstart (href (shdr sec)) + n)) as [_ B]; auto; try lia.
    pose proof (seq_ival_hi _ Hr). lia. }
  assert (BQ: fwd_hi (pqry P) <= ssize (hqry (shdr sec))).
  { unfold P, pair_of_block; cbn [pqry]. destruct (sub_bounds (seq_ival (hqry (shdr sec))) (Q - sstart (hqry (shdr sec))) (Q - sstart (hqry (shdr sec)) + n)) as [_ B]; auto; try lia.
    pose proof (seq_ival_hi _ Hq). lia. }
  destruct (sub_bounds (pref P) (off1 (pref P) iv) (off2 (pref P) iv)) as [_ B1]; auto.
  destruct (sub_bounds (pqry P) (off1 (pref P) iv) (off2 (pref P) iv)) as [_ B2]; auto; try lia.
  change (ictg (sub (pref P) (off1 (pref P) iv) (off2 (pref P) iv))) with (sname (href (shdr sec))).
  change (ictg (sub (pqry P) (off1 (pref P) iv) (off2 (pref P) iv))) with (sname (hqry (shdr sec))).
  repeat split; try lia.
  - apply Dr. exists sec. auto.
  - apply Dq. exists sec. auto.
Qed.

(** ---------- C10: exchanging reference and query roles inverts the mapping ---------- *)
Definition swap_hdr (h : header) : header := {| hscore := hscore h; href := hqry h; hqry := href h; hid := hid h |}.
Definition swap_rec (d : drec) : drec := {| dsize := dsize d; ddt := ddq d; ddq := ddt d; dterm := dterm d |}.
Definition swap_sec (s : section) : section := {| shdr := swap_hdr (shdr s); sdata := map swap_rec (sdata s) |}.
Definition swap_blk (b : N * N * N) : N * N * N := let '(T, Q, n) := b in (Q, T, n).

Lemma blocks_local_swap rs : forall t q, blocks_local q t (map swap_rec rs) = map swap_blk (blocks_local t q rs).
Proof. induction rs as [|c r IH]; intros t q; cbn [map blocks_local swap_rec ddt ddq dsize swap_blk]; [reflexivity|]. rewrite IH. reflexivity. Qed.
Lemma sec_blocks_swap s : sec_blocks (swap_sec s) = map swap_blk (sec_blocks s).
Proof. unfold sec_blocks, swap_sec, swap_hdr. cbn [shdr sdata href hqry]. apply blocks_local_swap. Qed.

Lemma block_maps_swap h T Q n rb qb : T + n <= ssize (href h) -> Q + n <= ssize (hqry h) ->
  block_maps (swap_hdr h) (Q, T, n) qb rb = block_maps h (T, Q, n) rb qb.
Proof.
  intros H1 H2.
  destruct (block_maps (swap_hdr h) (Q, T, n) qb rb) eqn:E1, (block_maps h (T, Q, n) rb qb) eqn:E2; try reflexivity.
  - apply block_maps_iff in E1; [|exact H2]. cbn [swap_hdr href hqry] in E1.
    destruct E1 as (A & B & C & D & i & Hi & F & G).
    assert (X: block_maps h (T, Q, n) rb qb = true) by (apply block_maps_iff; [exact H1|]; repeat split; auto; exists i; auto).
    congruence.
  - apply block_maps_iff in E2; [|exact H1]. destruct E2 as (A & B & C & D & i & Hi & F & G).
    assert (X: block_maps (swap_hdr h) (Q, T, n) qb rb = true).
    { apply block_maps_iff; [exact H2|]. cbn [swap_hdr href hqry]. repeat split; auto. exists i; auto. }
    congruence.
Qed.

Lemma mult_file_swap f rb qb : Forall sec_ok f -> Forall sums_ok f ->
  mult_file (map swap_sec f) qb rb = mult_file f rb qb.
Proof.
  induction f as [|s r IH]; intros H1 H2; cbn [map mult_file]; [reflexivity|].
  inversion H1 as [|? ? Hok Hr1]; inversion H2 as [|? ? Hsum Hr2]; subst. rewrite IH by assumption. f_equal.
  rewrite sec_blocks_swap, count_map. apply count_ext_in. intros [[T Q] n] Hin. cbn [swap_blk swap_sec shdr].
  unfold sec_blocks in Hin. apply blocks_local_range in Hin. destruct Hsum as [S1 S2]. destruct Hok as [(?&?&?) (?&?&?)].
  apply block_maps_swap; lia.
Qed.

Lemma swap_sec_ok s : sec_ok s -> sec_ok (swap_sec s).
Proof. unfold sec_ok, hdr_ok, swap_sec, swap_hdr. cbn [shdr href hqry]. tauto. Qed.
Lemma tot_swap f g rs : (forall d, f (swap_rec d) = g d) -> tot f (map swap_rec rs) = tot g rs.
Proof. intros H. induction rs as [|c r IH]; cbn [map tot]; [reflexivity|]. rewrite IH, H. reflexivity. Qed.
Lemma swap_sums_ok s : sums_ok s -> sums_ok (swap_sec s).
Proof.
  unfold sums_ok, swap_sec, swap_hdr. cbn [shdr sdata href hqry]. intros [H1 H2].
  rewrite (tot_swap ddt ddq) by reflexivity. rewrite (tot_swap ddq ddt) by reflexivity. auto.
Qed.

(** if the file aligns rb to qb (seen through any interval containing rb), the swapped file aligns qb
    back to rb (seen through any interval containing qb), the same number of times *)
Theorem liftover_swap f m m' iv iv' : Forall sec_ok f ->
  build_secs f = Val (Ok m) -> build_secs (map swap_sec f) = Val (Ok m') -> wf_ival iv -> wf_ival iv' ->
  exists r r', liftover m iv = Val r /\ liftover m' iv' = Val r' /\
    forall rb qb, base_in iv rb = true -> base_in iv' qb = true ->
      mult_res (opt_list r) rb qb = mult_res (opt_list r') qb rb.
Proof.
  intros Hf Hb Hb' Hiv Hiv'.
  assert (Hf': Forall sec_ok (map swap_sec f)).
  { rewrite Forall_forall in *. intros s Hs. apply in_map_iff in Hs as (s0 & <- & H0). apply swap_sec_ok. auto. }
  destruct (build_secs_inv f m Hf Hb) as (b & _ & _ & Hs & _).
  destruct (liftover_multiset f m iv Hf Hb Hiv) as (r & Hr & Hm).
  destruct (liftover_multiset _ m' iv' Hf' Hb' Hiv') as (r' & Hr' & Hm').
  exists r, r'. repeat split; auto. intros rb qb H1 H2. rewrite Hm, Hm'. unfold mult_spec. rewrite H1, H2.
  symmetry. apply mult_file_swap; assumption.
Qed.

(** ---------- C11: the order in which the per-contig vectors are moved into the final map is irrelevant ---------- *)
Lemma inner_get_in (l : list (contig * lapper pair)) k v : NoDup (map fst l) -> (inner_get l k = Some v <-> In (k, v) l).
Proof.
  induction l as [|[k0 v0] r IH]; intros Hnd; cbn [inner_get map fst In] in *.
  - split; [discriminate|contradiction].
  - inversion Hnd as [|? ? Hnot Hr]; subst. destruct (contig_eqb k0 k) eqn:E.
    + apply contig_eqb_eq in E. subst k0. split.
      * intros [= <-]. left. reflexivity.
      * intros [[= <-]|Hin]; [reflexivity|]. exfalso. apply Hnot. apply in_map_iff. exists (k, v). split; [reflexivity|exact Hin].
    + rewrite (IH Hr). split; [intros H; right; exact H|].
      intros [[= -> <-]|Hin]; [rewrite contig_eqb_refl in E; discriminate|exact Hin].
Qed.

Lemma inner_get_perm (l l' : list (contig * lapper pair)) k : NoDup (map fst l) -> Permutation l l' -> inner_get l k = inner_get l' k.
Proof.
  intros Hnd Hp. assert (Hnd': NoDup (map fst l')) by (eapply Permutation_NoDup; [apply Permutation_map; exact Hp|exact Hnd]).
  destruct (inner_get l k) as [v|] eqn:E.
  - apply (inner_get_in l k v Hnd) in E. symmetry. apply (inner_get_in l' k v Hnd'). eapply Permutation_in; eauto.
  - destruct (inner_get l' k) as [v'|] eqn:E'; [|reflexivity].
    apply (inner_get_in l' k v' Hnd') in E'. apply (Permutation_in _ (Permutation_sym Hp)) in E'.
    apply (inner_get_in l k v' Hnd) in E'. congruence.
Qed.

Theorem liftover_order_free (inner inner' : list (contig * lapper pair)) rd qd iv : NoDup (map fst inner) -> Permutation inner inner' ->
  liftover {| minner := inner; mref := rd; mqry := qd |} iv = liftover {| minner := inner'; mref := rd; mqry := qd |} iv.
Proof. intros Hnd Hp. unfold liftover. cbn [minner]. rewrite (inner_get_perm inner inner' (ictg iv) Hnd Hp). reflexivity. Qed.

Lemma ivmap_push_keys m k x : NoDup (map fst m) -> NoDup (map fst (ivmap_push m k x)).
Proof.
  induction m as [|[k0 v] r IH]; intros H; cbn [ivmap_push map fst].
  - constructor; [intros []|constructor].
  - inversion H as [|? ? Hnot Hr]; subst. destruct (contig_eqb k0 k) eqn:E; cbn [map fst]; [exact H|].
    constructor; [|apply IH; exact Hr]. intros Hin. apply in_map_iff in Hin as ([k1 v1] & Hk & Hin). cbn in Hk. subst k1.
    assert (Hkeys: forall m0, In (k0, v1) (ivmap_push m0 k x) -> k0 = k \/ In k0 (map fst m0)).
    { induction m0 as [|[k2 v2] r2 IH2]; cbn [ivmap_push]; intros Hi.
      - destruct Hi as [[= -> _]|[]]. left. reflexivity.
      - destruct (contig_eqb k2 k) eqn:E2.
        + destruct Hi as [[= -> _]|Hi]; [right; left; reflexivity|right; right; apply in_map_iff; exists (k0, v1); auto].
        + destruct Hi as [[= -> _]|Hi]; [right; left; reflexivity|]. destruct (IH2 Hi) as [->|Hi2]; [left; reflexivity|right; right; exact Hi2]. }
    destruct (Hkeys r Hin) as [->|Hi]; [rewrite contig_eqb_refl in E; discriminate|contradiction].
Qed.
Lemma push_pairs_keys ps : forall hm, NoDup (map fst hm) -> NoDup (map fst (push_pairs hm ps)).
Proof.
  induction ps as [|p ps IH]; intros hm H; cbn [push_pairs fold_left]; [exact H|].
  apply IH. unfold push_pair. destruct (nonzero p); [apply ivmap_push_keys; exact H|exact H].
Qed.
(** the keys of the per-contig index of a built machine are distinct, so the theorem above applies to it *)
Theorem build_keys_nodup f m : Forall sec_ok f -> build_secs f = Val (Ok m) -> NoDup (map fst (minner m)).
Proof.
  intros Hf Hb. destruct (build_secs_inv f m Hf Hb) as (b & -> & Hl & _ & _).
  destruct (build_secs_loop_ok f Hf _ _ Hl) as [_ Hhm]. cbn [machine_of_bstate minner]. rewrite map_map. cbn [fst].
  rewrite Hhm. apply push_pairs_keys. constructor.
Qed.
