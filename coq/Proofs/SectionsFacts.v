(** L6: the section iterator against the line grammar; finiteness; panic freedom. *)
From Coq Require Import Wf_nat.
Require Import CF.Proofs.Tac CF.Model.Text CF.Model.Records CF.Model.Reader CF.Model.Sections.

(** The line grammar, as a recursive function over the classified reads: the items up to and
    including the first error.  [cur] = the section under construction, [idx] = lines read so far. *)
Fixpoint spec_sections (cur : option section) (idx : N) (rs : list rawres) : list sitem :=
  match rs with
  | [] => match cur with None => [] | Some _ => [Err EAbrupt] end
  | r :: rest =>
    match classify r with
    | RIo e => [Err (EIo e)]
    | RBad e t => [Err (EBadLine e t)]
    | RBlank => match cur with None => spec_sections None (idx + 1) rest | Some _ => [Err (EBlank (idx + 1))] end
    | RHdr h => match cur with
                | None => spec_sections (Some {| shdr := h; sdata := [] |}) (idx + 1) rest
                | Some _ => [Err (EHdrIn h)] end
    | RData d =>
      match cur with
      | None => [Err (EDataBetween d)]
      | Some s => let s' := {| shdr := shdr s; sdata := sdata s ++ [d] |} in
                  if dterm d then Ok s' :: spec_sections None (idx + 1) rest
                  else spec_sections (Some s') (idx + 1) rest
      end
    end
  end.

Definition is_err (it : sitem) : bool := match it with Err _ => true | Ok _ => false end.
Fixpoint upto_err (l : list sitem) : list sitem :=
  match l with [] => [] | it :: r => if is_err it then [it] else it :: upto_err r end.

Lemma app_one_nonempty {A} (l : list A) x : l ++ [x] <> [].
Proof. destruct l; discriminate. Qed.

(** one call in the middle of a section *)
Lemma loop_reading s ln rs :
  exists r it' rest, sloop (Some s) Reading ln rs = Val (r, it', rest) /\ sst it' = InBetween /\
    (length rest <= length rs)%nat /\ (rs <> [] -> (length rest < length rs)%nat) /\ r <> None.
Proof.
  revert s ln. induction rs as [|x rest IH]; intros s ln.
  - cbn. do 3 eexists. repeat split; try reflexivity; try lia; try congruence.
  - cbn [sloop]. destruct (classify x) as [|h'|d|e t|e] eqn:C; cbn [get_state upd].
    + do 3 eexists. repeat split; try reflexivity; cbn; try lia; try congruence.
    + do 3 eexists. repeat split; try reflexivity; cbn; try lia; try congruence.
    + destruct (dterm d).
      * cbn [sdata]. destruct (sdata s ++ [d]) eqn:E; [exfalso; eapply app_one_nonempty; eauto|].
        do 3 eexists. repeat split; try reflexivity; cbn; try lia; try congruence.
      * destruct (IH {| shdr := shdr s; sdata := sdata s ++ [d] |} (ln + 1)) as (r & it' & rest' & E & ? & ? & ? & ?).
        rewrite E. do 3 eexists. repeat split; try reflexivity; cbn; try lia; auto.
    + do 3 eexists. repeat split; try reflexivity; cbn; try lia; try congruence.
    + do 3 eexists. repeat split; try reflexivity; cbn; try lia; try congruence.
Qed.

(** one call between sections: never panics, leaves the iterator between sections, consumes at
    least one read unless it returns None, which happens only at end of input *)
Lemma next_between ln rs :
  exists r it' rest, sections_next {| sst := InBetween; sln := ln |} rs = Val (r, it', rest) /\ sst it' = InBetween /\
    (length rest <= length rs)%nat /\ (r <> None -> (length rest < length rs)%nat) /\ (r = None -> rest = []).
Proof.
  unfold sections_next; cbn [sst sln]. revert ln. induction rs as [|x rest IH]; intros ln.
  - cbn. do 3 eexists. repeat split; try reflexivity; try lia; try congruence.
  - cbn [sloop]. destruct (classify x) as [|h|d|e t|e] eqn:C; cbn [get_state upd].
    + destruct (IH (ln + 1)) as (r & it' & rest' & E & ? & ? & H1 & ?). rewrite E.
      do 3 eexists. repeat split; try reflexivity; cbn; auto; try lia. all: try (intros Hr; specialize (H1 Hr); lia).
    + destruct (loop_reading {| shdr := h; sdata := [] |} (ln + 1) rest) as (r & it' & rest' & E & ? & ? & ? & ?). rewrite E.
      do 3 eexists. repeat split; try reflexivity; cbn; auto; try lia. all: try (intros; congruence).
    + do 3 eexists. repeat split; try reflexivity; cbn; try lia; try congruence.
    + do 3 eexists. repeat split; try reflexivity; cbn; try lia; try congruence.
    + do 3 eexists. repeat split; try reflexivity; cbn; try lia; try congruence.
Qed.

Lemma sdrain_S f it rs : sdrain (S f) it rs =
  match sections_next it rs with
  | Panic s => Panic s
  | Val (None, _, _) => Val ([], true)
  | Val (Some x, it', rs') => match sdrain f it' rs' with Panic s => Panic s | Val (l, e) => Val (x :: l, e) end
  end.
Proof. reflexivity. Qed.

(** C06 + C07 for the section iterator: from any between-sections state (in particular a fresh
    iterator, and every state reached after an error) no call panics, the drain ends within
    [length rs + 2] calls and yields at most [length rs] items. *)
Theorem sdrain_finite : forall rs ln fuel, (length rs + 1 < fuel)%nat ->
  exists items, sdrain fuel {| sst := InBetween; sln := ln |} rs = Val (items, true) /\ (length items <= length rs)%nat.
Proof.
  intros rs. remember (length rs) as n eqn:En. revert rs En.
  induction n as [n IHn] using lt_wf_ind. intros rs En ln fuel Hf.
  destruct fuel as [|fuel]; [lia|]. rewrite sdrain_S.
  destruct (next_between ln rs) as (r & it' & rest & E & Hst & Hle & Hlt & Hnone). rewrite E.
  destruct r as [it|].
  - assert (Hr: (length rest < length rs)%nat) by (apply Hlt; congruence).
    destruct it' as [st' ln']; cbn [sst] in Hst; subst st'.
    destruct (IHn (length rest) ltac:(lia) rest eq_refl ln' fuel ltac:(lia)) as (items & E2 & L).
    rewrite E2. eexists. split; [reflexivity|]. cbn. lia.
  - eexists. split; [reflexivity|]. cbn. lia.
Qed.

Lemma loop_reading_spec s ln rs r it' rest :
  sloop (Some s) Reading ln rs = Val (r, it', rest) ->
  match r with
  | Some (Ok sec) => spec_sections (Some s) ln rs = Ok sec :: spec_sections None (sln it') rest
  | Some (Err e) => spec_sections (Some s) ln rs = [Err e]
  | None => False
  end.
Proof.
  revert s ln. induction rs as [|x rs IH]; intros s ln; cbn [sloop spec_sections].
  - intros [= <- <- <-]. reflexivity.
  - destruct (classify x) as [|h'|d|e t|e] eqn:C; cbn [get_state upd]; try (intros [= <- <- <-]; reflexivity).
    destruct (dterm d).
    + cbn [sdata]. destruct (sdata s ++ [d]) eqn:E; [exfalso; eapply app_one_nonempty; eauto|].
      intros [= <- <- <-]. cbn [sln]. rewrite <- E. reflexivity.
    + intros H. apply IH in H. exact H.
Qed.

Lemma next_spec ln rs r it' rest :
  sections_next {| sst := InBetween; sln := ln |} rs = Val (r, it', rest) ->
  match r with
  | Some (Ok sec) => spec_sections None ln rs = Ok sec :: spec_sections None (sln it') rest
  | Some (Err e) => spec_sections None ln rs = [Err e]
  | None => spec_sections None ln rs = []
  end.
Proof.
  unfold sections_next; cbn [sst sln]. revert ln. induction rs as [|x rs IH]; intros ln; cbn [sloop spec_sections].
  - intros [= <- <- <-]. reflexivity.
  - destruct (classify x) as [|h|d|e t|e] eqn:C; cbn [get_state upd]; try (intros [= <- <- <-]; reflexivity).
    + intros H. apply IH in H. exact H.
    + intros H. apply loop_reading_spec in H. destruct r as [[sec|e]|]; auto. contradiction.
Qed.

(** C05: up to and including the first error, draining the iterator yields exactly the grammar. *)
Theorem sdrain_prefix_is_grammar : forall rs ln fuel items,
  (length rs + 1 < fuel)%nat -> sdrain fuel {| sst := InBetween; sln := ln |} rs = Val (items, true) ->
  upto_err items = spec_sections None ln rs.
Proof.
  intros rs. remember (length rs) as n eqn:En. revert rs En.
  induction n as [n IHn] using lt_wf_ind. intros rs En ln fuel items Hf.
  destruct fuel as [|fuel]; [lia|]. rewrite sdrain_S.
  destruct (next_between ln rs) as (r & it' & rest & E & Hst & Hle & Hlt & Hnone). rewrite E.
  pose proof (next_spec _ _ _ _ _ E) as S.
  destruct r as [it|].
  - assert (Hr: (length rest < length rs)%nat) by (apply Hlt; congruence).
    destruct it' as [st' ln']; cbn [sst] in Hst; subst st'. cbn [sln] in S.
    destruct (sdrain_finite rest ln' fuel ltac:(lia)) as (its & E2 & _). rewrite E2.
    intros [= <-]. destruct it as [sec|e]; cbn [upto_err is_err].
    + rewrite S. f_equal. apply (IHn (length rest) ltac:(lia) rest eq_refl ln' fuel its ltac:(lia) E2).
    + symmetry; exact S.
  - intros [= <-]. symmetry; exact S.
Qed.

(** ---------- C12: blank padding between sections ---------- *)
(** the grammar's items with blank-line numbers forgotten *)
Definition forget_ln (it : sitem) : sitem := match it with Err (EBlank _) => Err (EBlank 0) | x => x end.
Lemma spec_sections_idx rs : forall cur i j, map forget_ln (spec_sections cur i rs) = map forget_ln (spec_sections cur j rs).
Proof.
  induction rs as [|x rest IH]; intros cur i j; cbn [spec_sections]; [reflexivity|].
  destruct (classify x) as [|h|d|e t|e]; try reflexivity.
  - destruct cur; [reflexivity|apply IH].
  - destruct cur; [reflexivity|apply IH].
  - destruct cur as [s|]; [|reflexivity]. destruct (dterm d); cbn [map]; [f_equal|]; apply IH.
Qed.
(** inserting a blank line anywhere between sections (i.e. where the grammar is not inside a section)
    changes the items only in the line numbers quoted by blank-line errors *)
Lemma spec_sections_pad_between r rest idx : classify r = RBlank ->
  map forget_ln (spec_sections None idx (r :: rest)) = map forget_ln (spec_sections None idx rest).
Proof. intros C. cbn [spec_sections]. rewrite C. apply spec_sections_idx. Qed.
