(** C17: one cursor. *)
From Coq Require Import Wf_nat.
Require Import CF.Proofs.Tac CF.Model.Text CF.Model.Records CF.Model.Reader CF.Model.Sections CF.Model.Ops
  CF.Proofs.SectionsFacts.

(** the builder exists exactly while a section is being read *)
Definition coherent (b : option section) (st : sstate) : Prop :=
  match b, st with None, InBetween => True | Some _, Reading => True | _, _ => False end.

(** a call of the section iterator consumes a prefix of the remaining reads, and when it yields a
    section the last read it consumed is that section's terminating record *)
Lemma sloop_consumes rs : forall b st ln r it' rest, coherent b st -> sloop b st ln rs = Val (r, it', rest) ->
  exists pre, rs = pre ++ rest /\
    match r with
    | Some (Ok sec) => exists pre0 rl d, pre = pre0 ++ [rl] /\ classify rl = RData d /\ dterm d = true /\
                                         exists ds, sdata sec = ds ++ [d]
    | _ => True
    end.
Proof.
  induction rs as [|x rs IH]; intros b st ln r it' rest Hc; cbn [sloop].
  - destruct st; intros [= <- <- <-]; exists []; split; auto.
  - assert (Hcons: forall b' st' ln', coherent b' st' -> sloop b' st' ln' rs = Val (r, it', rest) ->
              exists pre, x :: rs = pre ++ rest /\
                match r with
                | Some (Ok sec) => exists pre0 rl d, pre = pre0 ++ [rl] /\ classify rl = RData d /\ dterm d = true /\
                                                     exists ds, sdata sec = ds ++ [d]
                | _ => True end).
    { intros b' st' ln' Hc' H. apply IH in H as (pre & -> & Hr); [|exact Hc']. exists (x :: pre). split; [reflexivity|].
      destruct r as [[sec|e]|]; auto. destruct Hr as (pre0 & rl & d & -> & H1 & H2 & H3). exists (x :: pre0), rl, d. auto. }
    destruct (classify x) as [|h|d|e t|e] eqn:C.
    + destruct b as [s|], st; cbn in Hc; try contradiction; cbn [get_state upd].
      * intros [= <- <- <-]. exists [x]. split; auto.
      * apply Hcons. exact I.
    + destruct b as [s|], st; cbn in Hc; try contradiction; cbn [get_state upd].
      * intros [= <- <- <-]. exists [x]. split; auto.
      * apply Hcons. exact I.
    + destruct b as [s|], st; cbn in Hc; try contradiction; cbn [get_state upd].
      * destruct (dterm d) eqn:T.
        -- cbn [sdata]. destruct (sdata s ++ [d]) eqn:E; [exfalso; eapply app_one_nonempty; eauto|].
           intros [= <- <- <-]. exists [x]. split; [reflexivity|]. exists [], x, d. repeat split; auto.
           exists (sdata s). cbn [sdata]. symmetry. exact E.
        -- apply Hcons. exact I.
      * intros [= <- <- <-]. exists [x]. split; auto.
    + intros [= <- <- <-]. exists [x]. split; auto.
    + intros [= <- <- <-]. exists [x]. split; auto.
Qed.

Lemma firstn_app_len {A} (pre rest : list A) : firstn (length (pre ++ rest) - length rest) (pre ++ rest) = pre.
Proof.
  rewrite app_length. replace (length pre + length rest - length rest)%nat with (length pre) by lia.
  rewrite firstn_app, firstn_all. replace (length pre - length pre)%nat with 0%nat by lia. cbn [firstn]. apply app_nil_r.
Qed.

(** consuming a prefix needs no coherence *)
Lemma sloop_prefix rs : forall b st ln r it' rest, sloop b st ln rs = Val (r, it', rest) -> exists pre, rs = pre ++ rest.
Proof.
  induction rs as [|x rs IH]; intros b st ln r it' rest; cbn [sloop].
  - destruct st; intros [= <- <- <-]; exists []; reflexivity.
  - destruct (classify x) as [|h|d|e t|e] eqn:C; try (intros [= <- <- <-]; exists [x]; reflexivity).
    all: match goal with |- context [get_state ?a ?b ?c] => destruct (get_state a b c) as [st'|e] end;
         [|intros [= <- <- <-]; exists [x]; reflexivity].
    all: match goal with |- context [upd ?a ?b] => destruct (upd a b) as [b'|p] end; [|discriminate].
    all: destruct st'; [destruct b' as [sec|]; [destruct (sdata sec); intros [= <- <- <-]; exists [x]; reflexivity|]|].
    all: intros H; apply IH in H as (pre & ->); exists (x :: pre); reflexivity.
Qed.

Lemma op_step_consumes o s ob used s' : op_step o s = (ob, used, s') -> used ++ oreads s' = oreads s.
Proof.
  unfold op_step. destruct o.
  - destruct (oreads s) as [|r rest]; intros [= <- <- <-]; reflexivity.
  - destruct (oreads s) as [|r rest]; intros [= <- <- <-]; reflexivity.
  - destruct (oreads s) as [|r rest]; intros [= <- <- <-]; reflexivity.
  - destruct (sections_next _ (oreads s)) as [[[x it'] rest]|p] eqn:E; [|intros [= <- <- <-]; reflexivity].
    intros [= <- <- <-]. cbn [oreads]. unfold sections_next in E.
    destruct (sloop_prefix _ _ _ _ _ _ _ E) as (pre & Hp).
    rewrite Hp. rewrite firstn_app_len. reflexivity.
  - intros [= <- <- <-]. reflexivity.
Qed.

(** Every input line is observed exactly once, in order, by exactly one operation: the reads consumed by
    the operations of any history, concatenated in order, followed by what is left, are the stream. *)
Theorem run_ops_cursor ops : forall s tr s', run_ops ops s = (tr, s') ->
  concat (map snd tr) ++ oreads s' = oreads s.
Proof.
  induction ops as [|o os IH]; intros s tr s'; cbn [run_ops].
  - intros [= <- <-]. reflexivity.
  - destruct (op_step o s) as [[ob used] s1] eqn:E1. destruct (run_ops os s1) as [tr1 s2] eqn:E2.
    intros [= <- <-]. cbn [map snd concat]. rewrite <- app_assoc. rewrite (IH _ _ _ E2). eapply op_step_consumes; eauto.
Qed.

(** single-line methods consume exactly one read (none at end of input) *)
Lemma op_step_single o s ob used s' : o = OpRaw \/ o = OpParsed \/ o = OpLines -> op_step o s = (ob, used, s') ->
  match oreads s with [] => used = [] | r :: _ => used = [r] end.
Proof.
  intros [->|[->| ->]]; unfold op_step; destruct (oreads s); intros [= <- <- <-]; reflexivity.
Qed.

(** yielding a section consumes nothing beyond that section's terminating line *)
Theorem sections_no_lookahead ln rs sec it' rest :
  sections_next {| sst := InBetween; sln := ln |} rs = Val (Some (Ok sec), it', rest) ->
  exists pre0 rl d ds, rs = pre0 ++ rl :: rest /\ classify rl = RData d /\ dterm d = true /\ sdata sec = ds ++ [d].
Proof.
  unfold sections_next; cbn [sst sln]. intros H. apply sloop_consumes in H as (pre & -> & pre0 & rl & d & -> & H1 & H2 & ds & H3); [|exact I].
  exists pre0, rl, d, ds. rewrite <- app_assoc. auto.
Qed.

(** ---------- C05: every yielded section, also after errors, is a run of consecutive input lines ---------- *)
Definition is_run (sec : section) (run : list rawres) : Prop :=
  map classify run = RHdr (shdr sec) :: map RData (sdata sec).

Lemma sloop_reading_run rs : forall s ln sec it' rest,
  sloop (Some s) Reading ln rs = Val (Some (Ok sec), it', rest) ->
  exists run more, rs = run ++ rest /\ map classify run = map RData more /\ sec = {| shdr := shdr s; sdata := sdata s ++ more |}.
Proof.
  induction rs as [|x rs IH]; intros s ln sec it' rest; cbn [sloop]; [discriminate|].
  destruct (classify x) as [|h|d|e t|e] eqn:C; cbn [get_state upd]; try discriminate.
  destruct (dterm d) eqn:T.
  - cbn [sdata]. destruct (sdata s ++ [d]) eqn:E; [discriminate|]. intros [= <- <- <-].
    exists [x], [d]. cbn [map app]. rewrite C, <- E. auto.
  - intros H. apply IH in H as (run & more & -> & Hm & ->). exists (x :: run), (d :: more). cbn [map app shdr sdata].
    rewrite C, Hm, <- app_assoc. auto.
Qed.

Lemma next_between_run ln rs sec it' rest :
  sections_next {| sst := InBetween; sln := ln |} rs = Val (Some (Ok sec), it', rest) ->
  exists blanks run, rs = blanks ++ run ++ rest /\ Forall (fun r => classify r = RBlank) blanks /\ is_run sec run.
Proof.
  unfold sections_next; cbn [sst sln]. revert ln. induction rs as [|x rs IH]; intros ln; cbn [sloop]; [discriminate|].
  destruct (classify x) as [|h|d|e t|e] eqn:C; cbn [get_state upd]; try discriminate.
  - intros H. apply IH in H as (blanks & run & -> & Hb & Hr). exists (x :: blanks), run. repeat split; auto.
  - intros H. apply sloop_reading_run in H as (run & more & -> & Hm & ->). exists [], (x :: run). cbn [app]. repeat split; auto.
    unfold is_run. cbn [map shdr sdata app]. rewrite C, Hm. reflexivity.
Qed.

Theorem sdrain_sections_are_runs : forall rs ln fuel items, (length rs + 1 < fuel)%nat ->
  sdrain fuel {| sst := InBetween; sln := ln |} rs = Val (items, true) ->
  forall sec, In (Ok sec) items -> exists pre run post, rs = pre ++ run ++ post /\ is_run sec run.
Proof.
  intros rs. remember (length rs) as n eqn:En. revert rs En.
  induction n as [n IHn] using lt_wf_ind. intros rs En ln fuel items Hf.
  destruct fuel as [|fuel]; [lia|]. rewrite sdrain_S.
  destruct (next_between ln rs) as (r & it' & rest & E & Hst & Hle & Hlt & Hnone). rewrite E.
  destruct r as [it|]; [|intros [= <-] sec []].
  assert (Hr: (length rest < length rs)%nat) by (apply Hlt; congruence).
  destruct it' as [st' ln']; cbn [sst] in Hst; subst st'.
  destruct (sdrain_finite rest ln' fuel ltac:(lia)) as (its & E2 & _). rewrite E2. intros [= <-] sec [Hin|Hin].
  - subst it. apply next_between_run in E as (blanks & run & -> & _ & Hrun). exists blanks, run, rest. auto.
  - unfold sections_next in E. cbn [sst sln] in E. destruct (sloop_prefix _ _ _ _ _ _ _ E) as (pre0 & ->).
    destruct (IHn (length rest) ltac:(lia) rest eq_refl ln' fuel its ltac:(lia) E2 sec Hin) as (pre & run & post & -> & Hrun).
    exists (pre0 ++ pre), run, post. rewrite <- app_assoc. auto.
Qed.
