(** L5: the machine built from a list of sections, and liftover over it, in closed form. *)
From Coq Require Import Sorting.Permutation.
Require Import CF.Proofs.Tac CF.Model.Omics CF.Model.Pair CF.Model.Records CF.Model.Reader CF.Model.Sections
  CF.Model.StepThrough CF.Model.Lapper CF.Model.Machine
  CF.Proofs.OmicsFacts CF.Proofs.PairFacts CF.Proofs.RecordsFacts CF.Proofs.StepFacts CF.Proofs.LapperFacts
  CF.Spec.Align CF.Proofs.AlignFacts.

(** building from already-parsed sections (the inner part of [try_build_from]) *)
Fixpoint build_secs_loop (f : list section) (b : bstate) : outcome (result builderr bstate) :=
  match f with
  | [] => Val (Ok b)
  | sec :: r => match add_section b sec with
                | Val (Ok b') => build_secs_loop r b'
                | other => other
                end
  end.
Definition bstate0 : bstate := {| bhm := []; bref := []; bqry := [] |}.
Definition build_secs (f : list section) : outcome (result builderr machine) :=
  match build_secs_loop f bstate0 with
  | Panic s => Panic s
  | Val (Err e) => Val (Err e)
  | Val (Ok b) => Val (Ok (machine_of_bstate b))
  end.

(** the pair of a block given in file-local coordinates *)
Definition pair_of_block (h : header) (blk : N * N * N) : pair :=
  let '(T, Q, n) := blk in
  {| pref := sub (seq_ival (href h)) (T - sstart (href h)) (T - sstart (href h) + n);
     pqry := sub (seq_ival (hqry h)) (Q - sstart (hqry h)) (Q - sstart (hqry h) + n) |}.
Definition sec_pairs (sec : section) : list pair := map (pair_of_block (shdr sec)) (sec_blocks sec).
Definition all_pairs (f : list section) : list pair := flat_map sec_pairs f.
(** the records add up to both header extents *)
Definition sums_ok (sec : section) : Prop :=
  sstart (href (shdr sec)) + tot ddt (sdata sec) = send (href (shdr sec)) /\
  sstart (hqry (shdr sec)) + tot ddq (sdata sec) = send (hqry (shdr sec)).
Definition sec_ok (sec : section) : Prop := hdr_ok (shdr sec).

Definition nonzero (p : pair) : bool := negb (count_entities (pref p) =? 0).
Definition onctg (k : contig) (p : pair) : bool := contig_eqb (ictg (pref p)) k.
Definition push_pair (hm : ivmap) (p : pair) : ivmap :=
  if nonzero p then ivmap_push hm (ictg (pref p)) (iv_of_pair p) else hm.
Definition push_pairs (hm : ivmap) (ps : list pair) : ivmap := fold_left push_pair ps hm.

Fixpoint ivmap_find (m : ivmap) (k : contig) : option (list iv) :=
  match m with [] => None | (k', v) :: r => if contig_eqb k' k then Some v else ivmap_find r k end.
Definition entries (m : ivmap) (k : contig) : list iv := match ivmap_find m k with Some v => v | None => [] end.

Lemma contig_eqb_sym a b : contig_eqb a b = contig_eqb b a.
Proof.
  destruct (contig_eqb a b) eqn:E1, (contig_eqb b a) eqn:E2; try reflexivity.
  - apply contig_eqb_eq in E1. subst. rewrite contig_eqb_refl in E2. discriminate.
  - apply contig_eqb_eq in E2. subst. rewrite contig_eqb_refl in E1. discriminate.
Qed.

Lemma ivmap_find_push m k x k' :
  ivmap_find (ivmap_push m k x) k' =
  if contig_eqb k k' then Some (entries m k' ++ [x]) else ivmap_find m k'.
Proof.
  unfold entries. induction m as [|[k0 v] r IH]; cbn [ivmap_push ivmap_find].
  - destruct (contig_eqb k k'); reflexivity.
  - destruct (contig_eqb k0 k) eqn:E0; cbn [ivmap_find].
    + apply contig_eqb_eq in E0. subst k0. destruct (contig_eqb k k'); reflexivity.
    + destruct (contig_eqb k0 k') eqn:E1.
      * destruct (contig_eqb k k') eqn:E2; [|reflexivity].
        apply contig_eqb_eq in E1, E2. subst. rewrite contig_eqb_refl in E0. discriminate.
      * exact IH.
Qed.
Lemma entries_push m k x k' :
  entries (ivmap_push m k x) k' = if contig_eqb k k' then entries m k' ++ [x] else entries m k'.
Proof. unfold entries at 1. rewrite ivmap_find_push. destruct (contig_eqb k k'); reflexivity. Qed.

Lemma entries_push_pairs ps : forall hm k,
  entries (push_pairs hm ps) k = entries hm k ++ map iv_of_pair (filter (fun p => nonzero p && onctg k p) ps).
Proof.
  induction ps as [|p ps IH]; intros hm k; cbn [push_pairs fold_left filter map].
  - rewrite app_nil_r. reflexivity.
  - fold (push_pairs (push_pair hm p) ps). rewrite IH. unfold push_pair, onctg.
    destruct (nonzero p); cbn [andb].
    + rewrite entries_push. destruct (contig_eqb (ictg (pref p)) k); cbn [map]; [rewrite <- app_assoc|]; reflexivity.
    + reflexivity.
Qed.

Lemma inner_get_map hm k :
  inner_get (map (fun kv => (fst kv, lap_new (snd kv))) hm) k = option_map lap_new (ivmap_find hm k).
Proof.
  induction hm as [|[k0 v] r IH]; cbn [map inner_get ivmap_find fst snd option_map]; [reflexivity|].
  destruct (contig_eqb k0 k); [reflexivity|exact IH].
Qed.

(** a step-through that completes yields exactly the closed-form pairs of the section *)
Lemma push_items_spec_run h rs : forall o p hm,
  no_err (spec_run (seq_ival (href h)) (seq_ival (hqry h)) o p rs) = true ->
  push_items hm (spec_run (seq_ival (href h)) (seq_ival (hqry h)) o p rs) =
  Ok (push_pairs hm (map (pair_of_block h) (blocks_local (sstart (href h) + o) (sstart (hqry h) + p) rs))).
Proof.
  induction rs as [|c r IH]; intros o p hm; cbn [spec_run blocks_local map].
  - destruct ((o =? len (seq_ival (href h))) && (p =? len (seq_ival (hqry h)))); cbn; [reflexivity|discriminate].
  - repeat (match goal with |- context [if ?b then _ else _] => destruct b end; [cbn; discriminate|]).
    cbn [no_err forallb is_ok andb push_items pref]. intros H.
    cbn [push_pairs fold_left]. unfold push_pair at 2, nonzero. cbn [pair_of_block pref].
    replace (sstart (href h) + o - sstart (href h)) with o by lia.
    replace (sstart (hqry h) + p - sstart (hqry h)) with p by lia.
    fold (gap (ddt c)). fold (gap (ddq c)).
    replace (sstart (href h) + o + dsize c + gap (ddt c)) with (sstart (href h) + (o + dsize c + gap (ddt c))) by lia.
    replace (sstart (hqry h) + p + dsize c + gap (ddq c)) with (sstart (hqry h) + (p + dsize c + gap (ddq c))) by lia.
    destruct (count_entities (sub (seq_ival (href h)) o (o + dsize c)) =? 0); cbn [negb]; apply IH; exact H.
Qed.

Lemma sums_ok_of_no_err sec : sec_ok sec ->
  no_err (spec_run (seq_ival (href (shdr sec))) (seq_ival (hqry (shdr sec))) 0 0 (sdata sec)) = true <-> sums_ok sec.
Proof.
  intros [Hr Hq].
  destruct (seq_interval_closed _ Hr) as (_ & W1 & U1 & L1). destruct (seq_interval_closed _ Hq) as (_ & W2 & U2 & L2).
  rewrite complete_iff by (auto; lia). unfold sums_ok. rewrite L1, L2. destruct Hr as (?&?&?), Hq as (?&?&?). lia.
Qed.

(** [add_section] in closed form *)
Lemma add_section_closed b sec : sec_ok sec ->
  add_section b sec =
  match dict_update (bqry b) (sname (hqry (shdr sec))) (ssize (hqry (shdr sec))) with
  | None => Val (Err BConflict)
  | Some qd =>
    match dict_update (bref b) (sname (href (shdr sec))) (ssize (href (shdr sec))) with
    | None => Val (Err BConflict)
    | Some rd =>
      match push_items (bhm b) (spec_run (seq_ival (href (shdr sec))) (seq_ival (hqry (shdr sec))) 0 0 (sdata sec)) with
      | Err e => Val (Err (BStep e))
      | Ok hm => Val (Ok {| bhm := hm; bref := rd; bqry := qd |})
      end
    end
  end.
Proof.
  intros Hs. unfold add_section.
  destruct (dict_update (bqry b) _ _); [|reflexivity]. destruct (dict_update (bref b) _ _); [|reflexivity].
  destruct (st_section_closed sec (length (sdata sec) + 2) Hs ltac:(lia)) as (s0 & -> & ->). reflexivity.
Qed.

Lemma push_items_err_iff hm items : (exists e, push_items hm items = Err e) <-> no_err items = false.
Proof.
  revert hm. induction items as [|[[p c]|e] r IH]; intros hm; cbn [push_items no_err forallb is_ok andb].
  - split; [intros [e H]; discriminate|discriminate].
  - destruct (count_entities (pref p) =? 0); apply IH.
  - split; [reflexivity|intros _; eexists; reflexivity].
Qed.

(** what a successful build knows about every section and about the index *)
Lemma build_secs_loop_ok f : Forall sec_ok f -> forall b b',
  build_secs_loop f b = Val (Ok b') ->
  Forall sums_ok f /\ bhm b' = push_pairs (bhm b) (all_pairs f).
Proof.
  induction f as [|sec r IH]; intros Hf b b'; cbn [build_secs_loop all_pairs flat_map].
  - intros [= <-]. split; [constructor|reflexivity].
  - inversion Hf as [|? ? Hs Hr]; subst. rewrite add_section_closed by assumption.
    destruct (dict_update (bqry b) _ _) as [qd|]; [|discriminate]. destruct (dict_update (bref b) _ _) as [rd|]; [|discriminate].
    destruct (push_items (bhm b) _) as [hm|e] eqn:Ep; [|discriminate].
    assert (Hn: no_err (spec_run (seq_ival (href (shdr sec))) (seq_ival (hqry (shdr sec))) 0 0 (sdata sec)) = true).
    { destruct (no_err _) eqn:E; [reflexivity|]. destruct (proj2 (push_items_err_iff (bhm b) _) E) as [e' He].
      rewrite He in Ep. discriminate. }
    rewrite push_items_spec_run in Ep by exact Hn. injection Ep as <-.
    intros H. apply IH in H as [H1 H2]; [|assumption]. split.
    + constructor; [apply sums_ok_of_no_err; assumption|exact H1].
    + rewrite H2. cbn [bhm]. unfold push_pairs. rewrite fold_left_app. unfold sec_pairs, sec_blocks.
      rewrite !N.add_0_r. reflexivity.
Qed.

(** ---------- counting lemmas ---------- *)
Lemma count_app {A} (f : A -> bool) l1 l2 : count f (l1 ++ l2) = (count f l1 + count f l2)%nat.
Proof. unfold count. rewrite filter_app, app_length. reflexivity. Qed.
Lemma count_map {A B} (g : A -> B) (f : B -> bool) l : count f (map g l) = count (fun x => f (g x)) l.
Proof. unfold count. induction l as [|x l IH]; cbn [map filter]; [reflexivity|]. destruct (f (g x)); cbn [length]; rewrite IH; reflexivity. Qed.
Lemma count_filter {A} (f h : A -> bool) l : count f (filter h l) = count (fun x => h x && f x) l.
Proof. unfold count. induction l as [|x l IH]; cbn [filter]; [reflexivity|]. destruct (h x); cbn [andb filter]; [destruct (f x); cbn [length]|]; rewrite IH; reflexivity. Qed.
Lemma count_ext_in {A} (f g : A -> bool) l : (forall x, In x l -> f x = g x) -> count f l = count g l.
Proof.
  unfold count. induction l as [|x l IH]; intros H; cbn [filter]; [reflexivity|].
  rewrite (H x) by (left; reflexivity). destruct (g x); cbn [length]; rewrite IH; auto; intros; apply H; right; assumption.
Qed.
Lemma count_perm {A} (f : A -> bool) l1 l2 : Permutation l1 l2 -> count f l1 = count f l2.
Proof.
  unfold count. induction 1 as [|x l l' _ IH|x y l|l l' l'' _ IH1 _ IH2]; cbn [filter].
  - reflexivity.
  - destruct (f x); cbn [length]; rewrite IH; reflexivity.
  - destruct (f x), (f y); reflexivity.
  - rewrite IH1. exact IH2.
Qed.
Lemma count_flat_map {A B} (g : A -> list B) (f : B -> bool) l :
  count f (flat_map g l) = fold_right (fun x n => (count f (g x) + n)%nat) 0%nat l.
Proof. induction l as [|x l IH]; cbn [flat_map fold_right]; [reflexivity|]. rewrite count_app, IH. reflexivity. Qed.
Lemma count_false {A} (f : A -> bool) l : (forall x, In x l -> f x = false) -> count f l = 0%nat.
Proof. intros H. rewrite (count_ext_in f (fun _ => false)) by exact H. unfold count. clear H. induction l as [|x l IH]; cbn [filter]; [reflexivity|exact IH]. Qed.
Lemma filter_map_comm {A B} (g : A -> B) (f : B -> bool) l : filter f (map g l) = map g (filter (fun x => f (g x)) l).
Proof. induction l as [|x l IH]; cbn [map filter]; [reflexivity|]. destruct (f (g x)); cbn [map]; rewrite IH; reflexivity. Qed.

(** ---------- well-formedness of the block pairs ---------- *)
Lemma blocks_local_range rs : forall t q T Q n, In (T, Q, n) (blocks_local t q rs) ->
  t <= T /\ T + n <= t + tot ddt rs /\ q <= Q /\ Q + n <= q + tot ddq rs.
Proof.
  induction rs as [|c r IH]; intros t q T Q n; cbn [blocks_local tot In]; [contradiction|].
  fold (gap (ddt c)). fold (gap (ddq c)). intros [[= <- <- <-]|H].
  - lia.
  - apply IH in H. lia.
Qed.

Lemma pair_of_block_wf h T Q n : hdr_ok h ->
  sstart (href h) <= T -> T + n <= send (href h) -> sstart (hqry h) <= Q -> Q + n <= send (hqry h) ->
  wf_pair (pair_of_block h (T, Q, n)) /\ len (pref (pair_of_block h (T, Q, n))) = n /\
  ictg (pref (pair_of_block h (T, Q, n))) = sname (href h) /\ istr (pref (pair_of_block h (T, Q, n))) = sstrand (href h) /\
  ictg (pqry (pair_of_block h (T, Q, n))) = sname (hqry h) /\ istr (pqry (pair_of_block h (T, Q, n))) = sstrand (hqry h).
Proof.
  intros [Hr Hq] H1 H2 H3 H4.
  destruct (seq_interval_closed _ Hr) as (_ & W1 & U1 & L1). destruct (seq_interval_closed _ Hq) as (_ & W2 & U2 & L2).
  unfold pair_of_block, wf_pair. cbn [pref pqry].
  repeat split; try (apply wf_sub; auto; lia); try (apply in_u64_sub; auto; lia).
  all: try (apply in_u64_sub; auto; lia).
  - rewrite !len_sub by (auto; lia). lia.
  - rewrite len_sub by (auto; lia). lia.
Qed.

Lemma sec_pairs_wf sec : sec_ok sec -> sums_ok sec ->
  Forall (fun p => wf_pair p /\ ictg (pref p) = sname (href (shdr sec)) /\ istr (pref p) = sstrand (href (shdr sec))) (sec_pairs sec).
Proof.
  intros Hh [S1 S2]. unfold sec_pairs, sec_blocks. rewrite Forall_forall. intros p Hp.
  apply in_map_iff in Hp as ([[T Q] n] & <- & Hin). apply blocks_local_range in Hin.
  destruct (pair_of_block_wf (shdr sec) T Q n Hh) as (W & _ & C & S & _); try lia. auto.
Qed.

Lemma all_pairs_wf f : Forall sec_ok f -> Forall sums_ok f -> Forall wf_pair (all_pairs f).
Proof.
  induction f as [|sec r IH]; intros H1 H2; cbn [all_pairs flat_map]; [constructor|].
  inversion H1; inversion H2; subst. apply Forall_app. split.
  - eapply Forall_impl; [|apply sec_pairs_wf; assumption]. cbn beta. tauto.
  - apply IH; assumption.
Qed.

(** ---------- liftover in closed form ---------- *)
Definition hitb (iv : ival) (p : pair) : bool := strand_eqb (istr (pref p)) (istr iv) && overlaps (pref p) iv.
Definition opt {A} (l : list A) : option (list A) := match l with [] => None | _ => Some l end.

Lemma fwd_extent_eq i : fwd_extent i = (fwd_lo i, fwd_hi i).
Proof. unfold fwd_extent, fwd_lo, fwd_hi. destruct (istr i); reflexivity. Qed.
Lemma lval_iv_of_pair p : lval (iv_of_pair p) = p.
Proof. unfold iv_of_pair. rewrite fwd_extent_eq. reflexivity. Qed.
Lemma overlap_iv_of_pair i p : overlap (fwd_lo i) (fwd_hi i) (iv_of_pair p) = overlaps (pref p) i.
Proof. unfold iv_of_pair, overlap, overlaps. rewrite fwd_extent_eq. cbn [lstart lstop]. reflexivity. Qed.

Lemma clamp_all_closed iv ps : wf_ival iv ->
  Forall (fun p => wf_pair p /\ ictg (pref p) = ictg iv /\ hitb iv p = true) ps ->
  clamp_all ps iv = Val (map (fun p => clip p iv) ps).
Proof.
  intros Hiv. induction ps as [|p ps IH]; intros H; cbn [clamp_all map]; [reflexivity|].
  inversion H as [|? ? (Hw & Hc & Hh) Hr]; subst. unfold hitb in Hh. apply andb_true_iff in Hh as [Hs Ho].
  apply strand_eqb_eq in Hs. pose proof Hw as (Hwr & _).
  rewrite clamp_closed; auto.
  - rewrite IH by assumption. reflexivity.
  - apply overlaps_meets; auto.
Qed.

Lemma filter_hits iv (l : list (liv pair)) : Forall (fun x => x = iv_of_pair (lval x)) l ->
  filter (fun p => strand_eqb (istr (pref p)) (istr iv)) (map lval (filter (overlap (fwd_lo iv) (fwd_hi iv)) l))
  = filter (hitb iv) (map lval l).
Proof.
  induction l as [|x l IH]; intros H; [reflexivity|].
  inversion H as [|? ? Hx Hr]; subst.
  assert (Ho: overlap (fwd_lo iv) (fwd_hi iv) x = overlaps (pref (lval x)) iv).
  { rewrite Hx at 1. apply overlap_iv_of_pair. }
  cbn [filter map]. rewrite Ho. unfold hitb at 1.
  destruct (overlaps (pref (lval x)) iv); cbn [map filter].
  - destruct (strand_eqb (istr (pref (lval x))) (istr iv)); cbn [andb]; rewrite IH by assumption; reflexivity.
  - rewrite andb_false_r. apply IH; assumption.
Qed.

Theorem liftover_closed b iv : wf_ival iv ->
  Forall (fun x => wf_pair (lval x) /\ ictg (pref (lval x)) = ictg iv /\ x = iv_of_pair (lval x)) (entries (bhm b) (ictg iv)) ->
  liftover (machine_of_bstate b) iv =
  Val (opt (map (fun p => clip p iv) (filter (hitb iv) (map lval (sort (entries (bhm b) (ictg iv))))))).
Proof.
  intros Hiv Hall. unfold liftover, machine_of_bstate. cbn [minner]. rewrite inner_get_map.
  unfold entries in *. destruct (ivmap_find (bhm b) (ictg iv)) as [v|]; cbn [option_map]; [|reflexivity].
  rewrite fwd_extent_eq. rewrite lap_find_spec.
  assert (Hs: Forall (fun x => wf_pair (lval x) /\ ictg (pref (lval x)) = ictg iv /\ x = iv_of_pair (lval x)) (sort v)).
  { rewrite Forall_forall in *. intros x Hx. apply Hall. eapply Permutation_in; [symmetry; apply sort_perm|exact Hx]. }
  rewrite filter_hits by (eapply Forall_impl; [|exact Hs]; cbn beta; tauto).
  rewrite clamp_all_closed.
  - unfold opt. destruct (map _ _); reflexivity.
  - exact Hiv.
  - rewrite Forall_forall in *. intros p Hp. apply filter_In in Hp as [Hp Hh]. apply in_map_iff in Hp as (x & <- & Hx).
    destruct (Hs x Hx) as (Hw & Hc & _). auto.
Qed.

(** ---------- from a successful build to the closed form ---------- *)
Definition sel (k : contig) (p : pair) : bool := nonzero p && onctg k p.

Lemma build_secs_inv f m : Forall sec_ok f -> build_secs f = Val (Ok m) ->
  exists b, m = machine_of_bstate b /\ build_secs_loop f bstate0 = Val (Ok b) /\ Forall sums_ok f /\
            forall k, entries (bhm b) k = map iv_of_pair (filter (sel k) (all_pairs f)).
Proof.
  intros Hf. unfold build_secs. destruct (build_secs_loop f bstate0) as [[b|e]|s] eqn:E; try discriminate.
  intros [= <-]. exists b. destruct (build_secs_loop_ok f Hf _ _ E) as [H1 H2].
  repeat split; auto. intros k. rewrite H2. rewrite entries_push_pairs. reflexivity.
Qed.

Theorem liftover_build_closed f m iv : Forall sec_ok f -> build_secs f = Val (Ok m) -> wf_ival iv ->
  liftover m iv = Val (opt (map (fun p => clip p iv)
                     (filter (hitb iv) (map lval (sort (map iv_of_pair (filter (sel (ictg iv)) (all_pairs f)))))))).
Proof.
  intros Hf Hb Hiv. destruct (build_secs_inv f m Hf Hb) as (b & -> & _ & Hs & He).
  rewrite liftover_closed; [rewrite He; reflexivity|exact Hiv|].
  rewrite He. pose proof (all_pairs_wf f Hf Hs) as Hw. rewrite Forall_forall in *.
  intros x Hx. apply in_map_iff in Hx as (p & <- & Hp). apply filter_In in Hp as [Hp Hsel].
  rewrite lval_iv_of_pair. split; [apply Hw; exact Hp|]. split; [|reflexivity].
  unfold sel, onctg in Hsel. apply andb_true_iff in Hsel as [_ Hc]. apply contig_eqb_eq in Hc. exact Hc.
Qed.

(** ---------- the bridge to the file's own coordinates ---------- *)
Lemma base_off_block s T n x : seq_ok s -> sstart s <= T -> T + n <= send s ->
  base_off (sub (seq_ival s) (T - sstart s) (T - sstart s + n)) x = local_off (sstrand s) (ssize s) T n x.
Proof.
  intros (H1 & H2 & H3) H4 H5. unfold base_off, sub, seq_ival, local_off, api_pos, dirf. cbn [istr ia ib].
  destruct (sstrand s).
  - replace (sstart s + (T - sstart s)) with T by lia. replace (sstart s + (T - sstart s + n)) with (T + n) by lia. reflexivity.
  - destruct ((ssize s - sstart s - (T - sstart s + n) <=? x) && (x <? ssize s - sstart s - (T - sstart s))) eqn:E1;
    destruct ((x <? ssize s) && (T <=? ssize s - 1 - x) && (ssize s - 1 - x <? T + n)) eqn:E2; try reflexivity; try (exfalso; lia).
    f_equal. lia.
Qed.
Lemma nth_base_block s Q n k : seq_ok s -> sstart s <= Q -> Q + n <= send s -> k < n ->
  nth_base (sub (seq_ival s) (Q - sstart s) (Q - sstart s + n)) k = fwd (sstrand s) (ssize s) (Q + k).
Proof.
  intros (H1 & H2 & H3) H4 H5 H6. unfold nth_base, sub, seq_ival, fwd, api_pos, dirf. cbn [istr ia ib].
  destruct (sstrand s); lia.
Qed.
Lemma local_off_lt st size T n x i : local_off st size T n x = Some i -> i < n.
Proof.
  unfold local_off. destruct st.
  - destruct ((T <=? x) && (x <? T + n)) eqn:E; [|discriminate]. intros [= <-]. lia.
  - destruct ((x <? size) && (T <=? size - 1 - x) && (size - 1 - x <? T + n)) eqn:E; [|discriminate]. intros [= <-]. lia.
Qed.

Lemma block_pair_maps h T Q n rb qb : hdr_ok h ->
  sstart (href h) <= T -> T + n <= send (href h) -> sstart (hqry h) <= Q -> Q + n <= send (hqry h) ->
  pair_maps (pair_of_block h (T, Q, n)) rb qb = block_maps h (T, Q, n) rb qb.
Proof.
  intros [Hr Hq] H1 H2 H3 H4. unfold pair_maps, block_maps, pair_of_block. cbn [pref pqry].
  change (ictg (sub (seq_ival (href h)) (T - sstart (href h)) (T - sstart (href h) + n))) with (sname (href h)).
  change (istr (sub (seq_ival (href h)) (T - sstart (href h)) (T - sstart (href h) + n))) with (sstrand (href h)).
  change (ictg (sub (seq_ival (hqry h)) (Q - sstart (hqry h)) (Q - sstart (hqry h) + n))) with (sname (hqry h)).
  change (istr (sub (seq_ival (hqry h)) (Q - sstart (hqry h)) (Q - sstart (hqry h) + n))) with (sstrand (hqry h)).
  rewrite base_off_block by assumption.
  destruct (local_off (sstrand (href h)) (ssize (href h)) T n (bidx rb)) as [i|] eqn:E; [|reflexivity].
  apply local_off_lt in E. rewrite nth_base_block by assumption. reflexivity.
Qed.

Lemma count_sec_pairs sec rb qb : sec_ok sec -> sums_ok sec ->
  count (fun p => pair_maps p rb qb) (sec_pairs sec) = count (fun blk => block_maps (shdr sec) blk rb qb) (sec_blocks sec).
Proof.
  intros Hh [S1 S2]. unfold sec_pairs. rewrite count_map. apply count_ext_in.
  intros [[T Q] n] Hin. unfold sec_blocks in Hin. apply blocks_local_range in Hin.
  apply block_pair_maps; auto; lia.
Qed.
Lemma count_all_pairs f rb qb : Forall sec_ok f -> Forall sums_ok f ->
  count (fun p => pair_maps p rb qb) (all_pairs f) = mult_file f rb qb.
Proof.
  induction f as [|sec r IH]; intros H1 H2; cbn [all_pairs flat_map mult_file]; [reflexivity|].
  inversion H1; inversion H2; subst. rewrite count_app, count_sec_pairs by assumption. f_equal. apply IH; assumption.
Qed.

Lemma pair_maps_sel p iv rb qb : wf_pair p ->
  pair_maps p rb qb && base_in iv rb = sel (ictg iv) p && (pair_maps p rb qb && base_in iv rb).
Proof.
  intros (Hr & _). destruct (pair_maps p rb qb && base_in iv rb) eqn:E; [|rewrite andb_false_r; reflexivity].
  rewrite andb_true_r. symmetry. apply andb_true_iff in E as [E1 E2]. unfold sel, nonzero, onctg.
  unfold pair_maps in E1. unfold base_in in E2.
  repeat (apply andb_true_iff in E1 as [E1 ?]). repeat (apply andb_true_iff in E2 as [E2 ?]).
  apply contig_eqb_eq in E1, E2. apply andb_true_iff. split.
  - destruct (base_off (pref p) (bidx rb)) as [k|] eqn:Ek; [|discriminate].
    apply base_off_lt in Ek as [Hk _]; [|exact Hr]. unfold len in Hk. apply negb_true_iff. lia.
  - apply contig_eqb_eq. congruence.
Qed.

(** C02 (multiset form), for every well-formed file, zero-length blocks and empty intervals included *)
Theorem liftover_multiset f m iv : Forall sec_ok f -> build_secs f = Val (Ok m) -> wf_ival iv ->
  exists r, liftover m iv = Val r /\ forall rb qb, mult_res (opt_list r) rb qb = mult_spec f iv rb qb.
Proof.
  intros Hf Hb Hiv. rewrite (liftover_build_closed f m iv Hf Hb Hiv). eexists. split; [reflexivity|].
  intros rb qb. destruct (build_secs_inv f m Hf Hb) as (b & _ & _ & Hs & _).
  pose proof (all_pairs_wf f Hf Hs) as Hw.
  assert (Eo: forall A (l : list A), opt_list (opt l) = l) by (intros A [|? ?]; reflexivity). rewrite Eo.
  unfold mult_res. rewrite count_map, count_filter.
  rewrite (count_perm _ _ (map lval (map iv_of_pair (filter (sel (ictg iv)) (all_pairs f))))).
  2:{ apply Permutation_map. symmetry. apply sort_perm. }
  rewrite map_map. rewrite (map_ext _ (fun p => p)) by (intros; apply lval_iv_of_pair). rewrite map_id.
  rewrite count_filter.
  rewrite (count_ext_in _ (fun p => pair_maps p rb qb && base_in iv rb)).
  2:{ intros p Hp. rewrite Forall_forall in Hw. specialize (Hw p Hp).
      rewrite (pair_maps_sel p iv rb qb Hw). destruct (sel (ictg iv) p) eqn:Es; cbn [andb]; [|reflexivity].
      unfold hitb. apply clip_maps; auto.
      unfold sel, onctg in Es. apply andb_true_iff in Es as [_ Hc]. apply contig_eqb_eq in Hc. auto. }
  unfold mult_spec. destruct (base_in iv rb).
  - rewrite (count_ext_in _ (fun p => pair_maps p rb qb)) by (intros; apply andb_true_r).
    apply count_all_pairs; assumption.
  - apply count_false. intros; apply andb_false_r.
Qed.
