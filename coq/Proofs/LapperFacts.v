(** L3: rust-lapper's find is the filter of the stably sorted vector by half-open overlap. *)
From Coq Require Import Sorting.Sorted Sorting.Permutation PeanoNat.
Require Import CF.Proofs.Tac CF.Model.Lapper.

Section Lap.
Variable V : Type.
Notation liv := (liv V).

Definition sorted_start (l : list liv) := StronglySorted (fun a b => lstart a <= lstart b) l.

Lemma insert_in x (r : list liv) z : In z (insert x r) -> z = x \/ In z r.
Proof.
  induction r as [|w r IH]; cbn [insert]; intros Hz.
  - destruct Hz as [<-|[]]; auto.
  - destruct (liv_le x w); cbn [In] in *.
    + destruct Hz as [<-|[<-|Hz]]; auto.
    + destruct Hz as [<-|Hz]; auto. destruct (IH Hz); auto.
Qed.

Lemma insert_sorted x l : sorted_start l -> sorted_start (insert x l).
Proof.
  induction l as [|y r IH]; intros Hs; cbn [insert].
  - constructor; constructor.
  - inversion Hs as [|? ? Hr Hall]; subst.
    destruct (liv_le x y) eqn:E.
    + constructor; [exact Hs|]. constructor.
      * unfold liv_le in E. lia.
      * rewrite Forall_forall in *. intros z Hz. specialize (Hall z Hz). unfold liv_le in E. lia.
    + constructor; [apply IH; exact Hr|].
      rewrite Forall_forall in *. intros z Hz. destruct (insert_in _ _ _ Hz) as [->|Hz'].
      * unfold liv_le in E. lia.
      * apply Hall; exact Hz'.
Qed.
Lemma sort_sorted l : sorted_start (sort l).
Proof. induction l as [|x l IH]; cbn [sort fold_right]; [constructor|apply insert_sorted; exact IH]. Qed.

Lemma insert_perm (x : liv) l : Permutation (x :: l) (insert x l).
Proof.
  induction l as [|y r IH]; cbn [insert]; [reflexivity|].
  destruct (liv_le x y); [reflexivity|]. rewrite perm_swap. constructor. exact IH.
Qed.
Lemma sort_perm (l : list liv) : Permutation l (sort l).
Proof.
  induction l as [|x l IH]; cbn [sort fold_right]; [constructor|].
  fold (sort l). rewrite <- insert_perm. constructor. exact IH.
Qed.

Lemma max_len_ge (l : list liv) : Forall (fun iv => lstop iv <= lstart iv + max_len l) l.
Proof.
  induction l as [|x l IH]; cbn [max_len fold_right]; constructor.
  - fold (max_len l). lia.
  - fold (max_len l). eapply Forall_impl; [|exact IH]. cbn beta. intros a Ha. lia.
Qed.

Lemma scan_filter s e (l : list liv) : sorted_start l -> scan s e l = filter (overlap s e) l.
Proof.
  induction l as [|iv r IH]; intros Hs; cbn [scan filter]; [reflexivity|].
  inversion Hs as [|? ? Hr Hall]; subst.
  destruct (overlap s e iv) eqn:E; [f_equal; apply IH; exact Hr|].
  destruct (e <=? lstart iv) eqn:F; [|apply IH; exact Hr].
  symmetry. clear IH Hs Hr E. induction r as [|z r IH]; cbn [filter]; [reflexivity|].
  inversion Hall as [|? ? Hz Hall']; subst.
  assert (overlap s e z = false) as -> by (unfold overlap; lia). apply IH; exact Hall'.
Qed.

Definition all_lt (key : N) (l : list liv) := Forall (fun iv => lstart iv < key) l.
Definition all_ge (key : N) (l : list liv) := Forall (fun iv => key <= lstart iv) l.

Lemma sorted_nth_lt key l i v :
  sorted_start l -> nth_error l i = Some v -> lstart v < key -> all_lt key (firstn (S i) l).
Proof.
  revert i. induction l as [|a l IH]; intros i Hs Hn Hv; [destruct i; discriminate|].
  inversion Hs as [|? ? Hr Hall]; subst. destruct i as [|i]; cbn in Hn.
  - injection Hn as ->. cbn. constructor; [exact Hv|constructor].
  - change (firstn (S (S i)) (a :: l)) with (a :: firstn (S i) l). constructor.
    + apply nth_error_In in Hn. rewrite Forall_forall in Hall. specialize (Hall _ Hn). lia.
    + eapply IH; eauto.
Qed.
Lemma sorted_nth_ge key l i v :
  sorted_start l -> nth_error l i = Some v -> key <= lstart v -> all_ge key (skipn i l).
Proof.
  revert i. induction l as [|a l IH]; intros i Hs Hn Hv; [destruct i; discriminate|].
  inversion Hs as [|? ? Hr Hall]; subst. destruct i as [|i]; cbn in Hn.
  - injection Hn as ->. cbn [skipn]. constructor; [exact Hv|].
    eapply Forall_impl; [|exact Hall]. cbn beta. intros; lia.
  - cbn [skipn]. eapply IH; eauto.
Qed.

Lemma lb_loop_spec key l : sorted_start l ->
  forall fuel size low, (size < fuel)%nat -> (low + size <= length l)%nat ->
    all_lt key (firstn low l) -> all_ge key (skipn (low + size) l) ->
    exists off, lb_loop fuel key l size low = Some off /\ (off <= length l)%nat /\
                all_lt key (firstn off l) /\ all_ge key (skipn off l).
Proof.
  intros Hs. induction fuel as [|fuel IH]; intros size low Hf Hb Hlt Hge; [lia|].
  cbn [lb_loop]. destruct (Nat.eqb size 0) eqn:E0.
  - apply Nat.eqb_eq in E0. subst size. rewrite Nat.add_0_r in Hge. exists low. repeat split; auto; lia.
  - apply Nat.eqb_neq in E0.
    pose proof (Nat.div2_odd size) as Hodd.
    assert (Hhalf: (Nat.div2 size < size)%nat) by (apply Nat.lt_div2; lia).
    set (half := Nat.div2 size) in *.
    assert (Hsz: (size = 2*half \/ size = 2*half + 1)%nat).
    { destruct (Nat.odd size); cbn in Hodd; lia. }
    destruct (nth_error l (low + half)) as [v|] eqn:En.
    2:{ apply nth_error_None in En. lia. }
    destruct (lstart v <? key) eqn:Ev.
    + apply (IH half (low + (size - half))%nat); try lia.
      * assert (H1: all_lt key (firstn (S (low + half)) l)) by (eapply sorted_nth_lt; eauto; lia).
        destruct Hsz as [Hz|Hz].
        -- replace (low + (size - half))%nat with (low + half)%nat by lia.
           unfold all_lt in *. rewrite <- (firstn_skipn (low+half) (firstn (S (low+half)) l)) in H1.
           apply Forall_app in H1 as [H1 _]. rewrite firstn_firstn in H1.
           replace (Nat.min (low + half) (S (low + half))) with (low+half)%nat in H1 by lia. exact H1.
        -- replace (low + (size - half))%nat with (S (low + half)) by lia. exact H1.
      * replace (low + (size - half) + half)%nat with (low + size)%nat by lia. exact Hge.
    + apply (IH half low); try lia; auto.
      eapply sorted_nth_ge; eauto. lia.
Qed.

Lemma lower_bound_spec key l : sorted_start l ->
  exists off, lower_bound key l = Some off /\ all_lt key (firstn off l) /\ all_ge key (skipn off l).
Proof.
  intros Hs. unfold lower_bound.
  destruct (lb_loop_spec key l Hs (S (length l)) (length l) 0%nat) as (off & H1 & _ & H2 & H3); try lia.
  - constructor.
  - cbn [Nat.add]. rewrite skipn_all. constructor.
  - exists off; auto.
Qed.

Lemma skipn_sorted (l : list liv) off : sorted_start l -> sorted_start (skipn off l).
Proof.
  revert off. induction l as [|a r IH]; intros off Hs.
  - destruct off; constructor.
  - destruct off; [exact Hs|]. cbn [skipn]. inversion Hs; subst. apply IH; assumption.
Qed.

(** The binary search never indexes out of bounds, the window never skips a hit, and the early
    break never drops one. *)
Theorem lap_find_spec (l : list liv) s e :
  lap_find (lap_new l) s e = Some (filter (overlap s e) (sort l)).
Proof.
  unfold lap_find, lap_new; cbn [ivs mlen].
  pose proof (sort_sorted l) as Hs.
  destruct (lower_bound_spec (s - max_len (sort l)) (sort l) Hs) as (off & -> & Hlt & Hge).
  f_equal.
  rewrite <- (firstn_skipn off (sort l)) at 2. rewrite filter_app.
  assert (filter (overlap s e) (firstn off (sort l)) = []) as ->.
  { pose proof (max_len_ge (sort l)) as Hm.
    rewrite <- (firstn_skipn off (sort l)) in Hm at 1. apply Forall_app in Hm as [Hm _].
    unfold all_lt in Hlt. revert Hlt Hm. generalize (firstn off (sort l)). intros p.
    induction p as [|a p IH]; intros H1 H2; cbn [filter]; [reflexivity|].
    inversion H1; inversion H2; subst.
    assert (overlap s e a = false) as -> by (unfold overlap; lia). auto. }
  cbn [app]. apply scan_filter. apply skipn_sorted. exact Hs.
Qed.
End Lap.
Arguments sorted_start {V}.
