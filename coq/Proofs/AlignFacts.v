(** Arithmetic bridge between the library's pairs and the file's alignment relation. *)
Require Import CF.Proofs.Tac CF.Model.Omics CF.Model.Pair CF.Model.Records CF.Model.Sections CF.Proofs.OmicsFacts
  CF.Proofs.PairFacts CF.Proofs.RecordsFacts CF.Spec.Align.

Lemma nth_base_sub i a b k : wf_ival i -> a <= b -> b <= len i -> k < b - a ->
  nth_base (sub i a b) k = nth_base i (a + k).
Proof.
  unfold wf_ival, nth_base, sub, len, count_entities, dist, dirf. cbn [istr ia ib]. destruct (istr i); lia.
Qed.

Lemma base_off_lt i x k : wf_ival i -> base_off i x = Some k -> k < len i /\ nth_base i k = x.
Proof.
  unfold wf_ival, base_off, nth_base, len, count_entities, dist. destruct (istr i).
  - destruct ((ia i <=? x) && (x <? ib i)) eqn:E; [|discriminate]. intros H [= <-]. lia.
  - destruct ((ib i <=? x) && (x <? ia i)) eqn:E; [|discriminate]. intros H [= <-]. lia.
Qed.
Lemma base_off_nth i k : wf_ival i -> k < len i -> base_off i (nth_base i k) = Some k.
Proof.
  unfold wf_ival, base_off, nth_base, len, count_entities, dist. destruct (istr i); intros H Hk.
  - destruct ((ia i <=? ia i + k) && (ia i + k <? ib i)) eqn:E; [f_equal; lia|exfalso; lia].
  - destruct ((ib i <=? ia i - 1 - k) && (ia i - 1 - k <? ia i)) eqn:E; [f_equal; lia|exfalso; lia].
Qed.

(** offsets of x within a sub-interval *)
Lemma base_off_sub i a b x : wf_ival i -> a <= b -> b <= len i ->
  base_off (sub i a b) x =
  match base_off i x with
  | Some k => if (a <=? k) && (k <? b) then Some (k - a) else None
  | None => None
  end.
Proof.
  unfold wf_ival, base_off, sub, len, count_entities, dist, dirf. cbn [istr ia ib]. destruct (istr i); intros H Hab Hb.
  - destruct ((ia i <=? x) && (x <? ib i)) eqn:E1.
    + destruct ((a <=? x - ia i) && (x - ia i <? b)) eqn:E2.
      * destruct ((ia i + a <=? x) && (x <? ia i + b)) eqn:E3; [f_equal; lia|exfalso; lia].
      * destruct ((ia i + a <=? x) && (x <? ia i + b)) eqn:E3; [exfalso; lia|reflexivity].
    + destruct ((ia i + a <=? x) && (x <? ia i + b)) eqn:E3; [exfalso; lia|reflexivity].
  - destruct ((ib i <=? x) && (x <? ia i)) eqn:E1.
    + destruct ((a <=? ia i - 1 - x) && (ia i - 1 - x <? b)) eqn:E2.
      * destruct ((ia i - b <=? x) && (x <? ia i - a)) eqn:E3; [f_equal; lia|exfalso; lia].
      * destruct ((ia i - b <=? x) && (x <? ia i - a)) eqn:E3; [exfalso; lia|reflexivity].
    + destruct ((ia i - b <=? x) && (x <? ia i - a)) eqn:E3; [exfalso; lia|reflexivity].
Qed.

(** the forward extent test used by the index *)
Definition fwd_lo (i : ival) : N := match istr i with Pos => ia i | Neg => ib i end.
Definition fwd_hi (i : ival) : N := match istr i with Pos => ib i | Neg => ia i end.
Definition overlaps (r iv : ival) : bool := (fwd_lo r <? fwd_hi iv) && (fwd_lo iv <? fwd_hi r).

Lemma overlaps_meets r iv : wf_ival r -> wf_ival iv -> istr iv = istr r -> overlaps r iv = true -> meets r iv.
Proof. unfold overlaps, meets, fwd_lo, fwd_hi, wf_ival. intros H1 H2 E. rewrite E in *. destruct (istr r); lia. Qed.

(** membership of a base of r in iv, through r's offsets *)
Lemma base_off_iv_via_r r iv x k : wf_ival r -> wf_ival iv -> istr iv = istr r -> base_off r x = Some k ->
  (match base_off iv x with Some _ => true | None => false end) =
  overlaps r iv && (off1 r iv <=? k) && (k <? off2 r iv).
Proof.
  unfold wf_ival, base_off, overlaps, fwd_lo, fwd_hi, off1, off2. intros H1 H2 E. rewrite E in *.
  destruct (istr r).
  - destruct ((ia r <=? x) && (x <? ib r)) eqn:E1; [|discriminate]. intros [= <-].
    destruct ((ia iv <=? x) && (x <? ib iv)) eqn:E2; lia.
  - destruct ((ib r <=? x) && (x <? ia r)) eqn:E1; [|discriminate]. intros [= <-].
    destruct ((ib iv <=? x) && (x <? ia iv)) eqn:E2; lia.
Qed.

(** The per-pair heart of C01/C02/C09: a clipped pair maps exactly the base pairings of the
    original pair whose reference base lies in the requested interval. *)
Lemma clip_maps p iv rb qb : wf_pair p -> wf_ival iv -> ictg iv = ictg (pref p) ->
  (strand_eqb (istr (pref p)) (istr iv) && overlaps (pref p) iv && pair_maps (clip p iv) rb qb)
  = (pair_maps p rb qb && base_in iv rb).
Proof.
  intros Hp Hiv Hc. pose proof Hp as (Hr & Hq & Hur & Huq & Hl).
  destruct (strand_eqb (istr (pref p)) (istr iv)) eqn:Es.
  2:{ cbn [andb]. unfold pair_maps, base_in. rewrite Hc.
      destruct (contig_eqb (ictg (pref p)) (bctg rb)); cbn [andb]; [|reflexivity].
      destruct (strand_eqb (istr (pref p)) (bstr rb)) eqn:E2; cbn [andb]; [|reflexivity].
      apply strand_eqb_eq in E2. rewrite <- E2.
      assert (strand_eqb (istr iv) (istr (pref p)) = false) as ->.
      { destruct (istr iv), (istr (pref p)); cbn in *; congruence. }
      cbn [andb]. rewrite ?andb_false_r. reflexivity. }
  apply strand_eqb_eq in Es. symmetry in Es.
  destruct (overlaps (pref p) iv) eqn:Eo; cbn [andb].
  - pose proof (overlaps_meets _ _ Hr Hiv Es Eo) as Hm.
    destruct (offs_ok _ _ Hr Hiv Es Hm) as [H12 H2].
    unfold pair_maps, base_in, clip. cbn [pref pqry]. rewrite Hc, Es.
    change (ictg (sub (pref p) (off1 (pref p) iv) (off2 (pref p) iv))) with (ictg (pref p)).
    change (istr (sub (pref p) (off1 (pref p) iv) (off2 (pref p) iv))) with (istr (pref p)).
    change (ictg (sub (pqry p) (off1 (pref p) iv) (off2 (pref p) iv))) with (ictg (pqry p)).
    change (istr (sub (pqry p) (off1 (pref p) iv) (off2 (pref p) iv))) with (istr (pqry p)).
    destruct (contig_eqb (ictg (pref p)) (bctg rb)); cbn [andb]; [|reflexivity].
    destruct (strand_eqb (istr (pref p)) (bstr rb)); cbn [andb]; [|reflexivity].
    destruct (contig_eqb (ictg (pqry p)) (bctg qb)); cbn [andb]; [|reflexivity].
    destruct (strand_eqb (istr (pqry p)) (bstr qb)); cbn [andb]; [|reflexivity].
    rewrite base_off_sub by assumption.
    destruct (base_off (pref p) (bidx rb)) as [k|] eqn:Ek; [|reflexivity].
    rewrite (base_off_iv_via_r _ _ _ _ Hr Hiv Es Ek), Eo. cbn [andb].
    destruct ((off1 (pref p) iv <=? k) && (k <? off2 (pref p) iv)) eqn:Ein.
    + rewrite nth_base_sub by (auto; lia). replace (off1 (pref p) iv + (k - off1 (pref p) iv)) with k by lia.
      rewrite ?andb_true_r. reflexivity.
    + rewrite ?andb_false_r. reflexivity.
  - unfold pair_maps, base_in. rewrite Hc, Es.
    destruct (contig_eqb (ictg (pref p)) (bctg rb)); cbn [andb]; [|reflexivity].
    destruct (strand_eqb (istr (pref p)) (bstr rb)); cbn [andb]; [|rewrite ?andb_false_r; reflexivity].
    destruct (base_off (pref p) (bidx rb)) as [k|] eqn:Ek; [|rewrite ?andb_false_r; reflexivity].
    rewrite (base_off_iv_via_r _ _ _ _ Hr Hiv Es Ek), Eo. cbn [andb]. rewrite ?andb_false_r. reflexivity.
Qed.
