(** C12: LF vs CRLF; C03/C13: the bytes of re-serialised sections are accepted. *)
Require Import CF.Proofs.Tac CF.Model.Omics CF.Model.Pair CF.Model.Text CF.Model.Records CF.Model.Reader CF.Model.Sections CF.Model.Machine
  CF.Proofs.RecordsFacts CF.Proofs.TextFacts CF.Proofs.SectionsFacts CF.Proofs.FileFacts CF.Proofs.ReaderFacts CF.Proofs.ChunkFacts
  CF.Spec.Align CF.Proofs.MachineFacts CF.Proofs.BuildFacts.

(** a text line that survives being terminated by [eol] and read back *)
Definition line_ok (eol l : bytes) : Prop :=
  ~ In LF l /\ utf8_valid (l ++ eol) = true /\ (forall l0, l <> l0 ++ [CR]).
Definition join_lines (eol : bytes) (ls : list bytes) : bytes := concat (map (fun l => l ++ eol) ls).

Lemma strip_eol_line eol l : eol = [LF] \/ eol = [CR; LF] -> (forall l0, l <> l0 ++ [CR]) -> strip_eol (l ++ eol) = l.
Proof.
  intros He Hcr. rewrite strip_eol_rev. destruct He as [->| ->].
  - rewrite rev_app_distr. cbn [rev app]. rewrite N.eqb_refl. destruct (rev l) as [|y r'] eqn:Er.
    + apply (f_equal (@rev N)) in Er. rewrite rev_involutive in Er. symmetry. exact Er.
    + destruct (y =? CR) eqn:E.
      * apply N.eqb_eq in E. subst y. exfalso. apply (Hcr (rev r')).
        apply (f_equal (@rev N)) in Er. rewrite rev_involutive in Er. exact Er.
      * rewrite <- Er. apply rev_involutive.
  - rewrite rev_app_distr. cbn [rev app]. rewrite !N.eqb_refl. apply rev_involutive.
Qed.

(** C12: the same text lines, terminated by LF or by CRLF, are read back as the same texts (only the byte
    counts differ), every read succeeding *)
Theorem raw_reads_join eol ls : eol = [LF] \/ eol = [CR; LF] -> Forall (line_ok eol) ls ->
  texts (raw_reads (src_of_bytes (join_lines eol ls))) = ls /\ all_ok (raw_reads (src_of_bytes (join_lines eol ls))).
Proof.
  intros He Hall. rewrite raw_reads_chunks. unfold join_lines.
  assert (Hch: chunks (concat (map (fun l => l ++ eol) ls)) = map (fun l => l ++ eol) ls).
  { destruct He as [->| ->].
    - apply chunks_join. eapply Forall_impl; [|exact Hall]. cbn beta. intros l (H & _). exact H.
    - replace (map (fun l => l ++ [CR; LF]) ls) with (map (fun l => l ++ [LF]) (map (fun l => l ++ [CR]) ls))
        by (rewrite map_map; apply map_ext; intros; rewrite <- app_assoc; reflexivity).
      apply chunks_join. rewrite Forall_forall in *. intros l Hl. apply in_map_iff in Hl as (l0 & <- & Hl0).
      destruct (Hall l0 Hl0) as (H & _). intros Hin. apply in_app_or in Hin as [Hin|[Hin|[]]]; [contradiction|unfold CR, LF in Hin; lia]. }
  rewrite Hch. unfold texts, all_ok. rewrite !map_map. split.
  - rewrite <- (map_id ls) at 2. apply map_ext_in. intros l Hl. rewrite Forall_forall in Hall. destruct (Hall l Hl) as (H1 & H2 & H3).
    unfold read_of. rewrite H2. cbn [negb]. apply strip_eol_line; assumption.
  - rewrite Forall_forall in *. intros r Hr. apply in_map_iff in Hr as (l & <- & Hl). destruct (Hall l Hl) as (H1 & H2 & H3).
    unfold read_of. rewrite H2. exact I.
Qed.

(** C03 / C13 (bytes): the re-serialisation of proper sections, with either line ending, is accepted as
    exactly those sections, and builds exactly their machine *)
Theorem file_bytes_roundtrip eol f : eol = [LF] \/ eol = [CR; LF] -> Forall sec_proper f -> Forall (line_ok eol) (file_lines f) ->
  spec_sections None 0 (raw_reads (src_of_bytes (join_lines eol (file_lines f)))) = map Ok f /\
  build (src_of_bytes (join_lines eol (file_lines f))) = build_secs f.
Proof.
  intros He Hf Hl. destruct (raw_reads_join eol (file_lines f) He Hl) as [Ht Ha].
  assert (Hs: spec_sections None 0 (raw_reads (src_of_bytes (join_lines eol (file_lines f)))) = map Ok f)
    by (apply file_roundtrip; assumption).
  split; [exact Hs|]. unfold build. apply build_reads_of_grammar. exact Hs.
Qed.

(** ---------- final newline or none ---------- *)
Lemma chunks_acc_app_lines ls : forall tail, Forall (fun l => ~ In LF l) ls ->
  chunks_acc [] (concat (map (fun l => l ++ [LF]) ls) ++ tail) = map (fun l => l ++ [LF]) ls ++ chunks_acc [] tail.
Proof.
  induction ls as [|l ls IH]; intros tail H; cbn [map concat app]; [reflexivity|].
  inversion H as [|? ? Hl Hr]; subst. rewrite <- !app_assoc. rewrite chunks_acc_take.
  pose proof (take_line_app l ([LF] ++ concat (map (fun l0 => l0 ++ [LF]) ls) ++ tail)) as Ht.
  pose proof (take_line_split l) as Hs. destruct (take_line l) as [[t rest] found]. destruct Hs as (Hb & Hnf & Hf).
  destruct found.
  - destruct (Hf eq_refl) as (t0 & -> & _). exfalso. apply Hl. rewrite Hb. apply in_or_app. left. apply in_or_app. right. left. reflexivity.
  - destruct (Hnf eq_refl) as [-> _]. rewrite app_nil_r in Hb. subst t. rewrite Ht. cbn [app take_line]. rewrite N.eqb_refl.
    cbn [rev app]. f_equal. apply IH. exact Hr.
Qed.

(** C12: the last line may lack its terminator: the same texts are read back *)
Theorem raw_reads_no_final_newline eol init last : eol = [LF] \/ eol = [CR; LF] ->
  Forall (line_ok eol) init -> last <> [] -> ~ In LF last -> utf8_valid last = true ->
  texts (raw_reads (src_of_bytes (join_lines eol init ++ last))) = init ++ [last] /\
  all_ok (raw_reads (src_of_bytes (join_lines eol init ++ last))).
Proof.
  intros He Hall Hne Hnl Hu. rewrite raw_reads_chunks. unfold chunks, join_lines.
  assert (Hch: chunks_acc [] (concat (map (fun l => l ++ eol) init) ++ last) = map (fun l => l ++ eol) init ++ [last]).
  { assert (Hlast: chunks_acc [] last = [last]).
    { rewrite chunks_acc_take. pose proof (take_line_split last) as Hs. destruct (take_line last) as [[t rest] found].
      destruct Hs as (Hb & Hnf & Hf). destruct found.
      - destruct (Hf eq_refl) as (t0 & -> & _). exfalso. apply Hnl. rewrite Hb. apply in_or_app. left. apply in_or_app. right. left. reflexivity.
      - destruct (Hnf eq_refl) as [-> _]. rewrite app_nil_r in Hb. subst t. cbn [rev app]. destruct last; [contradiction|reflexivity]. }
    destruct He as [->| ->].
    - rewrite chunks_acc_app_lines, Hlast; [reflexivity|]. eapply Forall_impl; [|exact Hall]. cbn beta. intros l (H & _). exact H.
    - replace (map (fun l => l ++ [CR; LF]) init) with (map (fun l => l ++ [LF]) (map (fun l => l ++ [CR]) init))
        by (rewrite map_map; apply map_ext; intros; rewrite <- app_assoc; reflexivity).
      rewrite chunks_acc_app_lines, Hlast; [reflexivity|]. rewrite Forall_forall in *. intros l Hl. apply in_map_iff in Hl as (l0 & <- & Hl0).
      destruct (Hall l0 Hl0) as (H & _). intros Hin. apply in_app_or in Hin as [Hin|[Hin|[]]]; [contradiction|unfold CR, LF in Hin; lia]. }
  rewrite Hch. unfold texts, all_ok. rewrite !map_app, !map_map. cbn [map].
  assert (Hrl: read_of last = ROk (N.of_nat (length last)) last).
  { rewrite (read_of_prefix last Hnl), Hu. reflexivity. }
  rewrite Hrl. split.
  - f_equal. rewrite <- (map_id init) at 2. apply map_ext_in. intros l Hl. rewrite Forall_forall in Hall. destruct (Hall l Hl) as (H1 & H2 & H3).
    unfold read_of. rewrite H2. cbn [negb]. apply strip_eol_line; assumption.
  - apply Forall_app. split; [|repeat constructor].
    rewrite Forall_forall in *. intros r Hr. apply in_map_iff in Hr as (l & <- & Hl). destruct (Hall l Hl) as (H1 & H2 & H3).
    unfold read_of. rewrite H2. exact I.
Qed.
