(** C12: LF vs CRLF; C03/C13: the bytes of re-serialised sections are accepted. *)
Require Import CF.Proofs.Tac CF.Model.Omics CF.Model.Pair CF.Model.Text CF.Model.Records CF.Model.Reader CF.Model.Sections CF.Model.Machine
  CF.Proofs.RecordsFacts CF.Proofs.TextFacts CF.Proofs.SectionsFacts CF.Proofs.FileFacts CF.Proofs.ReaderFacts CF.Proofs.ChunkFacts
  CF.Spec.Align CF.Proofs.MachineFacts CF.Proofs.BuildFacts.

(** a text line that survives being terminated by [eol] and read back *)
Definition line_ok (eol l : bytes) : Prop :=
  ~ In LF l /\ utf8_valid (l ++ eol) = true /\ (forall l0, l <> l0 ++ [CR]).
Definition join_lines (eol : bytes) (ls : list bytes) : bytes := concat (map (fun l => l ++ eol) ls).

Lemma strip_eol_line eol l : eol = [LF] \/ eol = [CR; LF] -> (forall l0, l <> l0 ++ [CR]) -> strip_eol (l ++ eol) = l.
Proof.
  intros He Hcr. rewrite strip_eol_rev. destruct He as [->| ->].
  - rewrite rev_app_distr. cbn [rev app]. rewrite N.eqb_refl. destruct (rev l) as [|y r'] eqn:Er.
    + apply (f_equal (@rev N)) in Er. rewrite rev_involutive in Er. symmetry. exact Er.
    + destruct (y =? CR) eqn:E.
      * apply N.eqb_eq in E. subst y. exfalso. apply (Hcr (rev r')).
        apply (f_equal (@rev N)) in Er. rewrite rev_involutive in Er. exact Er.
      * rewrite <- Er. apply rev_involutive.
  - rewrite rev_app_distr. cbn [rev app]. rewrite !N.eqb_refl. apply rev_involutive.
Qed.

(** C12: the same text lines, terminated by LF or by CRLF, are read back as the same texts (only the byte
    counts differ), every read succeeding *)
Theorem raw_reads_join eol ls : eol = [LF] \/ eol = [CR; LF] -> Forall (line_ok eol) ls ->
  texts (raw_reads (src_of_bytes (join_lines eol ls))) = ls /\ all_ok (raw_reads (src_of_bytes (join_lines eol ls))).
Proof.
  intros He Hall. rewrite raw_reads_chunks. unfold join_lines.
  assert (Hch: chunks (concat (map (fun l => l ++ eol) ls)) = map (fun l => l ++ eol) ls).
  { destruct He as [->| ->].
    - apply chunks_join. eapply Forall_impl; [|exact Hall]. cbn beta. intros l (H & _). exact H.
    - replace (map (fun l => l ++ [CR; LF]) ls) with (map (fun l => l ++ [LF]) (map (fun l => l ++ [CR]) ls))
        by (rewrite map_map; apply map_ext; intros; rewrite <- app_assoc; reflexivity).
      apply chunks_join. rewrite Forall_forall in *. intros l Hl. apply in_map_iff in Hl as (l0 & <- & Hl0).
      destruct (Hall l0 Hl0) as (H & _). intros Hin. apply in_app_or in Hin as [Hin|[Hin|[]]]; [contradiction|unfold CR, LF in Hin; lia]. }
  rewrite Hch. unfold texts, all_ok. rewrite !map_map. split.
  - rewrite <- (map_id ls) at 2. apply map_ext_in. intros l Hl. rewrite Forall_forall in Hall. destruct (Hall l Hl) as (H1 & H2 & H3).
    unfold read_of. rewrite H2. cbn [negb]. apply strip_eol_line; assumption.
  - rewrite Forall_forall in *. intros r Hr. apply in_map_iff in Hr as (l & <- & Hl). destruct (Hall l Hl) as (H1 & H2 & H3).
    unfold read_of. rewrite H2. exact I.
Qed.

(** C03 / C13 (bytes): the re-serialisation of proper sections, with either line ending, is accepted as
    exactly those sections, and builds exactly their machine *)
Theorem file_bytes_roundtrip eol f : eol = [LF] \/ eol = [CR; LF] -> Forall sec_proper f -> Forall (line_ok eol) (file_lines f) ->
  spec_sections None 0 (raw_reads (src_of_bytes (join_lines eol (file_lines f)))) = map Ok f /\
  build (src_of_bytes (join_lines eol (file_lines f))) = build_secs f.
Proof.
  intros He Hf Hl. destruct (raw_reads_join eol (file_lines f) He Hl) as [Ht Ha].
  assert (Hs: spec_sections None 0 (raw_reads (src_of_bytes (join_lines eol (file_lines f)))) = map Ok f)
    by (apply file_roundtrip; assumption).
  split; [exact Hs|]. unfold build. apply build_reads_of_grammar. exact Hs.
Qed.
