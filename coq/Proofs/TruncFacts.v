(** C08 at the level of line reads: truncation between lines, and failing reads. *)
Require Import CF.Proofs.Tac CF.Model.Omics CF.Model.Pair CF.Model.Text CF.Model.Records CF.Model.Reader CF.Model.Sections
  CF.Model.StepThrough CF.Model.Lapper CF.Model.Machine
  CF.Proofs.OmicsFacts CF.Proofs.RecordsFacts CF.Proofs.StepFacts CF.Proofs.SectionsFacts
  CF.Spec.Align CF.Proofs.MachineFacts CF.Proofs.BuildFacts CF.Proofs.PanicFacts.

Lemma in_firstn {A} (x : A) n l : In x (firstn n l) -> In x l.
Proof. revert n. induction l as [|a l IH]; intros [|n]; cbn [firstn In]; try contradiction. intros [->|H]; [left; reflexivity|right; eapply IH; eauto]. Qed.

(** a failed read anywhere makes the grammar report an error (that one, or an earlier one) *)
Lemma spec_sections_io_err rs : forall cur idx r e, In r rs -> classify r = RIo e ->
  exists e', In (Err e') (spec_sections cur idx rs).
Proof.
  induction rs as [|x rest IH]; intros cur idx r e Hin Hc; [contradiction|]. cbn [spec_sections].
  destruct Hin as [->|Hin].
  - rewrite Hc. eexists. left. reflexivity.
  - destruct (classify x) as [|h|d|e0 t|e0] eqn:C; try (eexists; left; reflexivity).
    + destruct cur; [eexists; left; reflexivity|]. eapply IH; eauto.
    + destruct cur; [eexists; left; reflexivity|]. eapply IH; eauto.
    + destruct cur as [s|]; [|eexists; left; reflexivity]. destruct (dterm d).
      * destruct (IH None (idx + 1) r e Hin Hc) as [e' H]. exists e'. right. exact H.
      * eapply IH; eauto.
Qed.

(** If the underlying reader fails hard at any read call before end of input, no machine is built. *)
Theorem build_reads_io_fault rs r n : In r rs -> r = RErr IoFail n -> forall m, build_reads rs <> Val (Ok m).
Proof.
  intros Hin -> m. apply build_reads_error. eapply (spec_sections_io_err rs None 0 _ IoFail Hin). reflexivity.
Qed.

(** the grammar of a prefix of an error-free stream: a whole-chain prefix, possibly followed by
    'end of input inside a section' *)
Lemma spec_sections_prefix rs : forall cur idx f k, spec_sections cur idx rs = map Ok f ->
  exists j tail, spec_sections cur idx (firstn k rs) = map Ok (firstn j f) ++ tail /\ (tail = [] \/ tail = [Err EAbrupt]).
Proof.
  induction rs as [|x rest IH]; intros cur idx f k H.
  - rewrite firstn_nil. cbn [spec_sections] in *. destruct cur.
    + destruct f; discriminate.
    + exists 0%nat, []. split; auto.
  - destruct k as [|k].
    + cbn [firstn spec_sections]. exists 0%nat. destruct cur; [exists [Err EAbrupt]|exists []]; split; auto.
    + cbn [firstn spec_sections] in *. destruct (classify x) as [|h|d|e0 t|e0] eqn:C.
      * destruct cur; [destruct f; discriminate|]. apply IH; exact H.
      * destruct cur; [destruct f; discriminate|]. apply IH; exact H.
      * destruct cur as [s|]; [|destruct f; discriminate]. destruct (dterm d).
        -- destruct f as [|s0 f']; [discriminate|]. cbn [map] in H. injection H as Hs Hr.
           destruct (IH None (idx + 1) f' k Hr) as (j & tail & E & Ht). exists (S j), tail. cbn [firstn map app].
           rewrite E, Hs. split; [reflexivity|exact Ht].
        -- apply IH; exact H.
      * destruct f; discriminate.
      * destruct f; discriminate.
Qed.

Lemma build_items_err_tail f' : Forall sec_ok f' -> forall e b, exists e', build_items (map Ok f' ++ [Err e]) b = Val (Err e').
Proof.
  induction f' as [|s r IH]; intros Hf e b; cbn [map app build_items].
  - eexists; reflexivity.
  - inversion Hf as [|? ? Hs Hr]; subst. destruct (add_section_no_panic b s Hs) as [[b'|e0] ->]; [apply IH; exact Hr|eexists; reflexivity].
Qed.

(** C08 (cut between lines): cutting an accepted stream after any number of whole lines either fails or
    builds exactly the machine of some whole-chain prefix of the file *)
Theorem build_reads_prefix rs f k : spec_sections None 0 rs = map Ok f ->
  (exists j, build_reads (firstn k rs) = build_secs (firstn j f)) \/ (exists e, build_reads (firstn k rs) = Val (Err e)).
Proof.
  intros H. destruct (spec_sections_prefix rs None 0 f k H) as (j & tail & E & [->| ->]).
  - left. exists j. rewrite app_nil_r in E. apply build_reads_of_grammar. exact E.
  - right. unfold build_reads, sections_new. rewrite build_loop_grammar by lia. rewrite E.
    assert (Hok: Forall sec_ok (firstn j f)).
    { pose proof (spec_sections_ok rs None 0 I) as Ho. rewrite H in Ho. rewrite Forall_forall in *. intros s Hs.
      apply (Ho (Ok s)). apply in_map. eapply in_firstn; eauto. }
    destruct (build_items_err_tail (firstn j f) Hok EAbrupt {| bhm := []; bref := []; bqry := [] |}) as [e' ->]. eexists; reflexivity.
Qed.
