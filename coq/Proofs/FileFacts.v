(** Whole files at the level of line reads: re-serialising sections parses back (C13, C03). *)
Require Import CF.Proofs.Tac CF.Model.Omics CF.Model.Text CF.Model.Records CF.Model.Reader CF.Model.Sections
  CF.Proofs.RecordsFacts CF.Proofs.TextFacts CF.Proofs.SectionsFacts.

(** the shape of every section the iterator yields: non-terminating records, then one terminating *)
Definition sec_proper (sec : section) : Prop :=
  hdr_full_ok (shdr sec) /\ Forall drec_full_ok (sdata sec) /\
  exists init last, sdata sec = init ++ [last] /\ Forall (fun d => dterm d = false) init /\ dterm last = true.

(** the text lines a section re-serialises to: header line, data lines, blank line *)
Definition print_drec_text (d : drec) : bytes := match print_drec d with Val p => p | Panic _ => [] end.
Definition sec_lines (sec : section) : list bytes := print_header (shdr sec) :: map print_drec_text (sdata sec) ++ [[]].
Definition file_lines (f : list section) : list bytes := flat_map sec_lines f.
(** line reads carrying given texts (the byte counts do not matter to the parser) *)
Definition reads_of (ns : list N) (ls : list bytes) : list rawres := map (fun nl => ROk (fst nl) (snd nl)) (combine ns ls).
Definition texts (rs : list rawres) : list bytes := map (fun r => match r with ROk _ t => t | _ => [] end) rs.
Definition all_ok (rs : list rawres) : Prop := Forall (fun r => match r with ROk _ _ => True | _ => False end) rs.

Lemma classify_header n h : hdr_full_ok h -> classify (ROk n (print_header h)) = RHdr h.
Proof.
  intros H. unfold classify, parse_line. pose proof (starts_with_chain_print_header h) as Hs.
  destruct (print_header h) as [|x r] eqn:E; [cbn in Hs; discriminate|]. rewrite Hs. rewrite <- E, parse_print_header by exact H. reflexivity.
Qed.
Lemma classify_drec n d : drec_full_ok d -> classify (ROk n (print_drec_text d)) = RData d.
Proof.
  intros H. destruct (parse_print_drec d H) as (p & Hp & Hq). unfold print_drec_text. rewrite Hp.
  assert (Hl: parse_line p = Ok (LData d)).
  { destruct H as [Hsz _]. destruct (print_u64_first (dsize d) Hsz) as (b & r & Eb & Hb).
    assert (Hpb: exists r', p = b :: r').
    { unfold print_drec in Hp. destruct (dterm d); [injection Hp as <-; rewrite Eb; eauto|].
      destruct (ddt d), (ddq d); try discriminate. injection Hp as <-. rewrite Eb. cbn [app]. eauto. }
    destruct Hpb as [r' ->]. unfold parse_line.
    assert (Hnc: starts_with CHAIN (b :: r') = false).
    { unfold CHAIN. cbn [starts_with]. unfold is_digit in Hb. destruct (99 =? b) eqn:F; [lia|reflexivity]. }
    rewrite Hnc, Hq. reflexivity. }
  unfold classify. rewrite Hl. reflexivity.
Qed.

(** reading the data lines of a section under construction *)
Lemma spec_sections_data h init : forall done rs idx rest,
  Forall drec_full_ok init -> Forall (fun d => dterm d = false) init ->
  texts rs = map print_drec_text init -> all_ok rs ->
  spec_sections (Some {| shdr := h; sdata := done |}) idx (rs ++ rest) =
  spec_sections (Some {| shdr := h; sdata := done ++ init |}) (idx + N.of_nat (length init)) rest.
Proof.
  induction init as [|d init IH]; intros done rs idx rest Hok Hnt Ht Hall.
  - destruct rs; [|discriminate]. cbn [app length]. rewrite app_nil_r, N.add_0_r. reflexivity.
  - destruct rs as [|r rs]; [discriminate|]. cbn [texts map] in Ht. injection Ht as Hr Ht.
    inversion Hok; inversion Hnt; inversion Hall; subst. destruct r as [n t| |]; try contradiction. subst t.
    cbn [app spec_sections]. rewrite classify_drec by assumption.
    match goal with H : dterm d = false |- _ => rewrite H end.
    cbn [shdr sdata]. rewrite IH by assumption. cbn [length]. rewrite <- app_assoc. cbn [app].
    f_equal. lia.
Qed.

Lemma spec_sections_section sec rs idx rest : sec_proper sec -> texts rs = sec_lines sec -> all_ok rs ->
  exists idx', spec_sections None idx (rs ++ rest) = Ok sec :: spec_sections None idx' rest.
Proof.
  intros (Hh & Hd & init & last & Hs & Hnt & Hlast) Ht Hall. unfold sec_lines in Ht. rewrite Hs in Ht, Hd.
  apply Forall_app in Hd as [Hdi Hdl]. inversion Hdl as [|? ? Hdlast _]; subst.
  rewrite map_app in Ht. cbn [map] in Ht.
  destruct rs as [|r0 rs]; [discriminate|]. cbn [texts map] in Ht. injection Ht as H0 Ht.
  inversion Hall as [|? ? Hr0 Hall']; subst. destruct r0 as [n0 t0| |]; try contradiction. subst t0.
  (* split rs into data reads for init, the last data read and the blank read *)
  assert (Hsplit: exists r1 rl rb, rs = r1 ++ [rl; rb] /\ texts r1 = map print_drec_text init /\
                                   texts [rl] = [print_drec_text last] /\ texts [rb] = [[]]).
  { clear -Ht. revert rs Ht. induction init as [|d init IH]; intros rs Ht; cbn [map app] in Ht.
    - destruct rs as [|a [|b [|c rs]]]; try discriminate. unfold texts in *. cbn [map] in *. injection Ht as Ha Hb.
      exists [], a, b. split; [reflexivity|]. split; [reflexivity|]. split; [f_equal; exact Ha|f_equal; exact Hb].
    - destruct rs as [|a rs]; [discriminate|]. unfold texts in Ht. cbn [map] in Ht. injection Ht as Ha Ht.
      destruct (IH rs Ht) as (r1 & rl & rb & -> & H1 & H2 & H3). exists (a :: r1), rl, rb. repeat split; auto.
      unfold texts in *. cbn [map]. f_equal; auto. }
  destruct Hsplit as (r1 & rl & rb & -> & H1 & H2 & H3).
  apply Forall_app in Hall' as [Hall1 Hall2]. inversion Hall2 as [|? ? Hrl Hall3]; subst. inversion Hall3 as [|? ? Hrb _]; subst.
  destruct rl as [nl tl| |]; try contradiction. destruct rb as [nb tb| |]; try contradiction.
  cbn [texts map] in H2, H3. injection H2 as ->. injection H3 as ->.
  cbn [app spec_sections]. rewrite classify_header by exact Hh.
  rewrite <- app_assoc. rewrite (spec_sections_data (shdr sec) init [] r1) by assumption.
  cbn [app spec_sections]. rewrite classify_drec by exact Hdlast. rewrite Hlast. cbn [shdr sdata app].
  assert (Hb: classify (ROk nb []) = RBlank) by reflexivity. rewrite Hb.
  eexists. f_equal. destruct sec as [h ds]; cbn [shdr sdata] in *. subst ds. reflexivity.
Qed.

(** C13 (files): re-serialising all sections (header line, data lines, blank line) gives line reads
    that parse back to exactly the same sections *)
Theorem file_roundtrip f : Forall sec_proper f -> forall rs idx, texts rs = file_lines f -> all_ok rs ->
  spec_sections None idx rs = map Ok f.
Proof.
  induction f as [|sec f IH]; intros Hf rs idx Ht Hall.
  - destruct rs; [reflexivity|discriminate].
  - inversion Hf as [|? ? Hs Hr]; subst. cbn [file_lines flat_map] in Ht.
    (* cut rs after the section's lines *)
    assert (Hcut: exists ra rb, rs = ra ++ rb /\ texts ra = sec_lines sec /\ texts rb = file_lines f).
    { exists (firstn (length (sec_lines sec)) rs), (skipn (length (sec_lines sec)) rs). split; [symmetry; apply firstn_skipn|].
      unfold texts in *. rewrite <- firstn_map, <- skipn_map, Ht. split.
      - rewrite firstn_app, firstn_all. replace (length (sec_lines sec) - length (sec_lines sec))%nat with 0%nat by lia. cbn [firstn]. apply app_nil_r.
      - rewrite skipn_app, skipn_all. replace (length (sec_lines sec) - length (sec_lines sec))%nat with 0%nat by lia. reflexivity. }
    destruct Hcut as (ra & rb & -> & Ha & Hb). apply Forall_app in Hall as [Hall1 Hall2].
    destruct (spec_sections_section sec ra idx rb Hs Ha Hall1) as [idx' ->]. cbn [map]. f_equal. apply IH; assumption.
Qed.

(** every section the grammar yields is proper, so an accepted file satisfies the premise above *)
Lemma classify_data_full r d : classify r = RData d -> drec_full_ok d.
Proof.
  unfold classify. destruct r as [n t| |]; try discriminate. unfold parse_line. destruct t as [|c t']; [discriminate|].
  destruct (starts_with CHAIN (c :: t')).
  - destruct (parse_header (c :: t')); discriminate.
  - destruct (parse_drec (c :: t')) as [d'|] eqn:E; [|discriminate]. intros [= <-]. eapply parse_drec_full_ok; eauto.
Qed.
Lemma classify_hdr_full r h : classify r = RHdr h -> hdr_full_ok h.
Proof.
  unfold classify. destruct r as [n t| |]; try discriminate. unfold parse_line. destruct t as [|c t']; [discriminate|].
  destruct (starts_with CHAIN (c :: t')).
  - destruct (parse_header (c :: t')) as [h'|] eqn:E; [|discriminate]. intros [= <-]. eapply parse_header_full_ok; eauto.
  - destruct (parse_drec (c :: t')); discriminate.
Qed.
Definition partial_ok (s : section) : Prop :=
  hdr_full_ok (shdr s) /\ Forall drec_full_ok (sdata s) /\ Forall (fun d => dterm d = false) (sdata s).
Lemma spec_sections_proper rs : forall cur idx, (match cur with Some s => partial_ok s | None => True end) ->
  Forall (fun it => match it with Ok s => sec_proper s | Err _ => True end) (spec_sections cur idx rs).
Proof.
  induction rs as [|r rest IH]; intros cur idx Hc; cbn [spec_sections].
  - destruct cur; repeat constructor.
  - destruct (classify r) as [|h|d|e t|e] eqn:C.
    + destruct cur; [repeat constructor|apply IH; exact I].
    + destruct cur; [repeat constructor|]. apply IH. split; [eapply classify_hdr_full; eauto|]. split; constructor.
    + destruct cur as [s|]; [|repeat constructor]. destruct Hc as (H1 & H2 & H3). pose proof (classify_data_full _ _ C) as Hd.
      destruct (dterm d) eqn:T.
      * constructor; [|apply IH; exact I]. split; [exact H1|]. cbn [sdata]. split; [apply Forall_app; split; [exact H2|constructor; [exact Hd|constructor]]|].
        exists (sdata s), d. auto.
      * apply IH. split; [exact H1|]. cbn [sdata]. split; apply Forall_app; split; auto; constructor; auto.
    + repeat constructor.
    + repeat constructor.
Qed.
