(** C08: a failing read after any number of whole lines of an accepted stream surfaces as exactly that I/O error. *)
Require Import CF.Proofs.Tac CF.Model.Omics CF.Model.Pair CF.Model.Text CF.Model.Records CF.Model.Reader CF.Model.Sections
  CF.Model.StepThrough CF.Model.Lapper CF.Model.Machine
  CF.Proofs.OmicsFacts CF.Proofs.RecordsFacts CF.Proofs.StepFacts CF.Proofs.SectionsFacts
  CF.Spec.Align CF.Proofs.MachineFacts CF.Proofs.BuildFacts CF.Proofs.PanicFacts CF.Proofs.TruncFacts CF.Proofs.ReaderFacts CF.Proofs.ChunkFacts CF.Proofs.FaultSched.

Lemma spec_sections_prefix_fault rs : forall cur idx f k r rest e, spec_sections cur idx rs = map Ok f -> classify r = RIo e ->
  exists j, spec_sections cur idx (firstn k rs ++ r :: rest) = map Ok (firstn j f) ++ [Err (EIo e)].
Proof.
  induction rs as [|x rs' IH]; intros cur idx f k r rest e H Hc.
  - rewrite firstn_nil. cbn [app spec_sections]. rewrite Hc. exists 0%nat. reflexivity.
  - destruct k as [|k].
    + cbn [firstn app spec_sections]. rewrite Hc. exists 0%nat. reflexivity.
    + cbn [firstn app spec_sections] in *. destruct (classify x) as [|h|d|e0 t|e0] eqn:C.
      * destruct cur; [destruct f; discriminate|]. eapply IH; eauto.
      * destruct cur; [destruct f; discriminate|]. eapply IH; eauto.
      * destruct cur as [s|]; [|destruct f; discriminate]. destruct (dterm d).
        -- destruct f as [|s0 f']; [discriminate|]. cbn [map] in H. injection H as Hs Hr.
           destruct (IH None (idx + 1) f' k r rest e Hr Hc) as (j & E). exists (S j). cbn [firstn map app].
           rewrite E, Hs. reflexivity.
        -- eapply IH; eauto.
      * destruct f; discriminate.
      * destruct f; discriminate.
Qed.

Lemma build_items_prefix_err f : forall b b' j e, build_secs_loop f b = Val (Ok b') ->
  build_items (map Ok (firstn j f) ++ [Err e]) b = Val (Err (BSections e)).
Proof.
  induction f as [|s f' IH]; intros b b' j e H.
  - rewrite firstn_nil. reflexivity.
  - destruct j as [|j]; [reflexivity|]. cbn [firstn map app build_items]. cbn [build_secs_loop] in H.
    destruct (add_section b s) as [[b1|e1]|p]; try discriminate. eapply IH; eauto.
Qed.

(** If the reader fails hard at a read call made after any number of complete lines of a stream from which a machine would
    have been built, the build returns exactly that I/O error (whatever the reader would have delivered afterwards). *)
Theorem build_reads_fault_is_io rs m k r rest e : build_reads rs = Val (Ok m) -> classify r = RIo e ->
  build_reads (firstn k rs ++ r :: rest) = Val (Err (BSections (EIo e))).
Proof.
  intros Hb Hc. destruct (build_reads_ok_inv _ _ Hb) as (f & Hf & Hok & Hbs & _).
  destruct (spec_sections_prefix_fault rs None 0 f k r rest e Hf Hc) as (j & E).
  unfold build_secs in Hbs. destruct (build_secs_loop f bstate0) as [[b|e0]|p] eqn:El; try discriminate.
  unfold build_reads, sections_new. rewrite build_loop_grammar by lia. rewrite E.
  change {| bhm := []; bref := []; bqry := [] |} with bstate0.
  rewrite (build_items_prefix_err f bstate0 b j (EIo e) El). reflexivity.
Qed.

(** C08, second sentence, in full: whenever the whole byte string [flat l1 ++ b2] would have given a machine, any schedule that
    delivers [flat l1] (any chunking, any interrupts) and then fails hard makes the build return exactly the I/O error -
    whatever the reader would deliver afterwards. *)
Theorem build_fault_is_io l1 l2 b2 m : no_fail l1 -> build (src_of_bytes (flat l1 ++ b2)) = Val (Ok m) ->
  build {| pending := []; future := l1 ++ Fail :: l2 |} = Val (Err (BSections (EIo IoFail))).
Proof.
  intros Hn Hb. unfold build in *. rewrite (raw_reads_fault_schedule l1 l2 b2 Hn).
  eapply build_reads_fault_is_io; [exact Hb|reflexivity].
Qed.
