(* Driver for the extracted model: one ASCII case per input line, one ASCII result per output line.
   The only glue is the conversion between OCaml chars and the extracted binary naturals. *)
open Model

let rec pos_of_int (i : int) : positive =
  if i = 1 then XH
  else if i land 1 = 1 then XI (pos_of_int (i lsr 1))
  else XO (pos_of_int (i lsr 1))
let n_of_int (i : int) : n = if i = 0 then N0 else Npos (pos_of_int i)
let rec int_of_pos (p : positive) : int =
  match p with XH -> 1 | XO q -> 2 * int_of_pos q | XI q -> 2 * int_of_pos q + 1
let int_of_n (x : n) : int = match x with N0 -> 0 | Npos p -> int_of_pos p

let () =
  let buf = Buffer.create 4096 in
  (try
     while true do
       let line = input_line stdin in
       let l = List.init (String.length line) (fun i -> n_of_int (Char.code line.[i])) in
       let out = run_case l in
       Buffer.clear buf;
       List.iter (fun b -> Buffer.add_char buf (Char.chr (int_of_n b land 255))) out;
       print_string (Buffer.contents buf);
       print_char '\n'
     done
   with End_of_file -> ());
  flush stdout
