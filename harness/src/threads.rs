//! C18: type-level obligations (checked by the compiler every time the harness is built against
//! /repo) and the concurrent-equals-sequential comparison.

use std::sync::Arc;

use chainfile::liftover::Machine;

use crate::{build_machine, parse_src, show_lift};

/// Instantiated below for every type the property names: a failure to compile is a violation.
fn need<T: Send + Sync + 'static>() {}

#[allow(dead_code)]
pub fn type_obligations() {
    need::<Machine>();
    need::<chainfile::liftover::stepthrough::interval_pair::ContiguousIntervalPair>();
    need::<Vec<chainfile::liftover::stepthrough::interval_pair::ContiguousIntervalPair>>();
    need::<chainfile::liftover::machine::builder::Error>();
    need::<chainfile::liftover::stepthrough::Error>();
    need::<chainfile::liftover::stepthrough::interval_pair::Error>();
    need::<chainfile::alignment::section::sections::Error>();
    need::<chainfile::alignment::section::sections::ParseError>();
    need::<chainfile::alignment::section::header::Error>();
    need::<chainfile::alignment::section::header::sequence::Error>();
    need::<chainfile::alignment::section::data::Error>();
    need::<chainfile::reader::Error>();
    need::<chainfile::line::Error>();
    need::<chainfile::alignment::Section>();
    need::<chainfile::Line>();
}

fn parse_ival(t: &str) -> Option<Result<omics::coordinate::interval::interbase::Interval, ()>> {
    crate::parse_ival_pub(t)
}

/// `threads <src> <queries> <n>`: build once, answer every query sequentially, then from `n`
/// threads sharing `&Machine` (each thread walks the queries from a different starting point, three
/// rounds), and moves the machine into an `Arc` sent to a further thread.  Prints the sequential
/// answers in the format of `build` when every thread agrees with them.
pub fn cmd_threads(a: &str, qs: &str, n: &str) -> String {
    type_obligations();
    let ev = match parse_src(a) {
        Some(e) => e,
        None => return "badcase".into(),
    };
    let n: usize = match n.parse() {
        Ok(n) => n,
        Err(_) => return "badcase".into(),
    };
    let m = match build_machine(ev) {
        Err(()) => return "panic".into(),
        Ok(Err(e)) => return format!("err {}", e),
        Ok(Ok(m)) => m,
    };
    let queries: Vec<&str> = if qs == "-" { vec![] } else { qs.split(',').collect() };
    let answer = |m: &Machine, t: &str| -> String {
        match parse_ival(t) {
            Some(Ok(i)) => show_lift(m, i),
            Some(Err(())) => "badival".into(),
            None => "badcase".into(),
        }
    };
    let seq: Vec<String> = queries.iter().map(|t| answer(&m, t)).collect();
    let mut agree = true;
    std::thread::scope(|s| {
        let mut hs = vec![];
        for k in 0..n {
            let m = &m;
            let queries = &queries;
            let seq = &seq;
            hs.push(s.spawn(move || {
                let mut ok = true;
                if queries.is_empty() {
                    return ok;
                }
                for round in 0..3 {
                    for j in 0..queries.len() {
                        let idx = (j + k * 7 + round) % queries.len();
                        if answer(m, queries[idx]) != seq[idx] {
                            ok = false;
                        }
                    }
                }
                ok
            }));
        }
        for h in hs {
            match h.join() {
                Ok(true) => {}
                _ => agree = false,
            }
        }
    });
    // send the machine itself to another thread
    let dicts = format!(
        "ref={} qry={}",
        crate::show_dict_pub(m.reference_chromosomes()),
        crate::show_dict_pub(m.query_chromosomes())
    );
    let arc = Arc::new(m);
    let arc2 = arc.clone();
    let owned_queries: Vec<String> = queries.iter().map(|s| s.to_string()).collect();
    let seq2 = seq.clone();
    let h = std::thread::spawn(move || {
        owned_queries
            .iter()
            .zip(seq2.iter())
            .all(|(t, exp)| match parse_ival(t) {
                Some(Ok(i)) => &show_lift(&arc2, i) == exp,
                Some(Err(())) => exp == "badival",
                None => exp == "badcase",
            })
    });
    if !matches!(h.join(), Ok(true)) {
        agree = false;
    }
    if !agree {
        return "concurrent-differs-from-sequential".into();
    }
    let mut out = vec!["ok".to_string(), dicts];
    out.extend(seq);
    out.join(" ")
}
