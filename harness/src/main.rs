//! Correspondence harness: runs the real `chainfile` crate (public API only) on the case protocol
//! that `coq/Model/Harness.v` implements for the model.  One ASCII case per stdin line, one ASCII
//! result per stdout line.  Every library call runs under `catch_unwind`.

use std::cell::Cell;
use std::collections::VecDeque;
use std::rc::Rc;
use std::io::{self, BufRead, Read, Write};
use std::panic::{catch_unwind, AssertUnwindSafe};

use chainfile::alignment::section::data::record::Kind;
use chainfile::alignment::section::data::Record as DataRecord;
use chainfile::alignment::section::header::Record as HeaderRecord;
use chainfile::alignment::section::header::Sequence;
use chainfile::alignment::section::sections;
use chainfile::alignment::section::{header, Builder as SectionBuilder};
use chainfile::alignment::Section;
use chainfile::liftover::machine;
use chainfile::liftover::stepthrough;
use chainfile::liftover::stepthrough::interval_pair::{self, ContiguousIntervalPair};
use chainfile::liftover::Machine;
#[allow(unused_imports)]
use chainfile::{line, reader, Line, Reader};
use omics::coordinate::interbase::Coordinate;
use omics::coordinate::interval::interbase::Interval;
use omics::coordinate::Strand;

mod threads;

const CAP: usize = 60;

// ---------------------------------------------------------------------------------------------
// scripted BufRead
// ---------------------------------------------------------------------------------------------

#[derive(Clone, Debug)]
pub enum Event {
    Chunk(Vec<u8>),
    Interrupted,
    Fail(io::ErrorKind),
}

/// A `BufRead` that delivers a scripted sequence of chunks and faults; after the script: EOF.
#[derive(Clone, Debug)]
pub struct Script {
    pending: Vec<u8>,
    off: usize,
    future: VecDeque<Event>,
    /// bytes consumed so far; shared so that the harness can observe the cursor while an iterator
    /// holds the reader
    pub consumed: Rc<Cell<u64>>,
}

impl Script {
    pub fn new(events: Vec<Event>) -> Self {
        Script {
            pending: Vec::new(),
            off: 0,
            future: events.into(),
            consumed: Rc::new(Cell::new(0)),
        }
    }
}

impl Read for Script {
    fn read(&mut self, buf: &mut [u8]) -> io::Result<usize> {
        let avail = self.fill_buf()?;
        let n = avail.len().min(buf.len());
        buf[..n].copy_from_slice(&avail[..n]);
        self.consume(n);
        Ok(n)
    }
}

impl BufRead for Script {
    fn fill_buf(&mut self) -> io::Result<&[u8]> {
        if self.off >= self.pending.len() {
            match self.future.pop_front() {
                None => {
                    self.pending.clear();
                    self.off = 0;
                }
                Some(Event::Chunk(c)) => {
                    self.pending = c;
                    self.off = 0;
                }
                Some(Event::Interrupted) => {
                    self.pending.clear();
                    self.off = 0;
                    return Err(io::Error::new(io::ErrorKind::Interrupted, "scripted interrupt"));
                }
                Some(Event::Fail(kind)) => {
                    self.pending.clear();
                    self.off = 0;
                    return Err(io::Error::new(kind, "scripted failure"));
                }
            }
        }
        Ok(&self.pending[self.off..])
    }

    fn consume(&mut self, amt: usize) {
        self.off += amt;
        self.consumed.set(self.consumed.get() + amt as u64);
    }
}

// ---------------------------------------------------------------------------------------------
// parsing of case arguments
// ---------------------------------------------------------------------------------------------

fn hex_dec(s: &str) -> Option<Vec<u8>> {
    let b = s.as_bytes();
    if b.len() % 2 != 0 {
        return None;
    }
    let v = |c: u8| -> Option<u8> {
        match c {
            b'0'..=b'9' => Some(c - b'0'),
            b'a'..=b'f' => Some(c - b'a' + 10),
            _ => None,
        }
    };
    let mut out = Vec::with_capacity(b.len() / 2);
    for i in (0..b.len()).step_by(2) {
        out.push(v(b[i])? * 16 + v(b[i + 1])?);
    }
    Some(out)
}

fn hex_enc(b: &[u8]) -> String {
    let mut s = String::with_capacity(b.len() * 2);
    for x in b {
        s.push_str(&format!("{:02x}", x));
    }
    s
}

fn parse_x(t: &str) -> Option<Vec<u8>> {
    hex_dec(t.strip_prefix('x')?)
}

/// a hex token that must be valid UTF-8 to be handed to a `&str` API
fn parse_xs(t: &str) -> Option<String> {
    String::from_utf8(parse_x(t)?).ok()
}

fn parse_strand(t: &str) -> Option<Strand> {
    match t {
        "+" => Some(Strand::Positive),
        "-" => Some(Strand::Negative),
        _ => None,
    }
}

fn parse_n(t: &str) -> Option<u64> {
    t.parse::<u64>().ok()
}

fn parse_coord(t: &str) -> Option<Coordinate> {
    let p: Vec<&str> = t.split(':').collect();
    if p.len() != 3 {
        return None;
    }
    Some(Coordinate::new(parse_xs(p[0])?, parse_strand(p[1])?, parse_n(p[2])?))
}

fn parse_ival(t: &str) -> Option<Result<Interval, ()>> {
    let p: Vec<&str> = t.split(':').collect();
    if p.len() != 4 {
        return None;
    }
    let c = parse_xs(p[0])?;
    let s = parse_strand(p[1])?;
    let a = parse_n(p[2])?;
    let b = parse_n(p[3])?;
    Some(Interval::try_new(Coordinate::new(c.clone(), s, a), Coordinate::new(c, s, b)).map_err(|_| ()))
}

fn parse_opt_n(t: &str) -> Option<Option<u64>> {
    if t == "-" {
        Some(None)
    } else {
        Some(Some(parse_n(t)?))
    }
}

pub fn parse_src(t: &str) -> Option<Vec<Event>> {
    if t == "-" {
        return Some(vec![]);
    }
    let mut out = vec![];
    for e in t.split(',') {
        match e {
            "i" => out.push(Event::Interrupted),
            "f" => out.push(Event::Fail(io::ErrorKind::Other)),
            "u" => out.push(Event::Fail(io::ErrorKind::UnexpectedEof)),
            "r" => out.push(Event::Fail(io::ErrorKind::ConnectionReset)),
            "w" => out.push(Event::Fail(io::ErrorKind::WouldBlock)),
            _ => {
                let c = hex_dec(e.strip_prefix('c')?)?;
                if !c.is_empty() {
                    out.push(Event::Chunk(c));
                }
            }
        }
    }
    Some(out)
}

// ---------------------------------------------------------------------------------------------
// canonical output
// ---------------------------------------------------------------------------------------------

/// Formats a value the library handed out (`Display` and `Debug`), discarding the text: the wording is no property's
/// business, but formatting is library code too and must not panic (C06) — a panic here unwinds into the enclosing
/// `guard` and shows up as `panic`.
fn probe<E: std::fmt::Display + std::fmt::Debug>(e: &E) {
    let _ = e.to_string();
    let _ = format!("{:?}", e);
}

fn show_x(b: &[u8]) -> String {
    format!("x{}", hex_enc(b))
}

fn show_strand(s: Strand) -> &'static str {
    match s {
        Strand::Positive => "+",
        Strand::Negative => "-",
    }
}

fn show_coord(c: &Coordinate) -> String {
    format!(
        "{}:{}:{}",
        show_x(c.contig().as_str().as_bytes()),
        show_strand(c.strand()),
        c.position().get()
    )
}

pub fn show_ival(i: &Interval) -> String {
    format!(
        "{}:{}:{}:{}",
        show_x(i.contig().as_str().as_bytes()),
        show_strand(i.strand()),
        i.start().position().get(),
        i.end().position().get()
    )
}

pub fn show_pair(p: &ContiguousIntervalPair) -> String {
    // the consuming accessors must agree with the borrowing ones (C15: one pair, one reference side, one query side)
    probe(p);
    let (r, q) = p.clone().into_parts();
    if &r != p.reference() || &q != p.query() || &p.clone().into_reference() != p.reference() || &p.clone().into_query() != p.query() {
        return format!("NOTEQUAL-pair {:?}", p);
    }
    format!("{}>{}", show_ival(p.reference()), show_ival(p.query()))
}

fn show_opt(o: Option<u64>) -> String {
    match o {
        Some(n) => n.to_string(),
        None => "-".into(),
    }
}

fn show_drec(d: &DataRecord) -> String {
    format!(
        "{}/{}/{}/{}",
        d.size(),
        show_opt(d.dt()),
        show_opt(d.dq()),
        match d.kind() {
            Kind::Terminating => "T",
            Kind::NonTerminating => "N",
        }
    )
}

fn show_seq(s: &Sequence) -> String {
    format!(
        "{}:{}:{}:{}:{}",
        show_x(s.chromosome_name().as_bytes()),
        s.chromosome_size(),
        show_strand(s.strand()),
        s.alignment_start(),
        s.alignment_end()
    )
}

fn show_header(h: &HeaderRecord) -> String {
    format!(
        "{}/{}/{}/{}",
        h.score(),
        show_seq(h.reference_sequence()),
        show_seq(h.query_sequence()),
        h.id()
    )
}

fn show_perr(e: &interval_pair::Error) -> String {
    // C15 says "is an error" / "is refused" and nothing about the variant: none is named here
    probe(e);
    "refused".into()
}

// Error kinds no property speaks about are not part of the compared observable.
fn show_seqerr(e: &header::sequence::Error) -> String {
    probe(e);
    "seq".into()
}

fn show_line(l: &Line) -> String {
    // the variant accessors must agree with the variant (C13/C14: a line is exactly one of the three kinds)
    let consistent = match l {
        Line::Empty => l.as_header().is_none() && l.as_alignment_data().is_none(),
        Line::Header(h) => {
            l.as_header() == Some(h) && l.as_alignment_data().is_none() && l.clone().into_header().as_ref() == Some(h)
                && l.clone().into_alignment_data_record().is_none()
        }
        Line::AlignmentData(d) => {
            l.as_alignment_data() == Some(d) && l.as_header().is_none() && l.clone().into_alignment_data_record().as_ref() == Some(d)
                && l.clone().into_header().is_none()
        }
    };
    if !consistent {
        return format!("NOTEQUAL-line {:?}", l);
    }
    match l {
        Line::Empty => "empty".into(),
        Line::Header(h) => format!("hdr:{}:{}", show_header(h), show_x(l.to_string().as_bytes())),
        Line::AlignmentData(d) => format!("dat:{}:{}", show_drec(d), show_x(l.to_string().as_bytes())),
    }
}

// The error variants the properties name (C05's five kinds, C08's I/O error) are named here behind four cargo features, one per
// enum, so that a tree which renamed or reshaped one of them still builds (cflib.build_harness drops features until it does);
// errors of an enum whose names are gone are classified without naming a variant (`classify_unknown`).
fn show_lineerr(e: &line::Error) -> String {
    probe(e);
    #[allow(unreachable_patterns)]
    match e {
        #[cfg(feature = "lin")]
        line::Error::InvalidHeaderRecord { .. } => "err:hdr".into(),
        #[cfg(feature = "lin")]
        line::Error::InvalidAlignmentDataRecord { .. } => "err:dat".into(),
        _ => "err:other".into(),
    }
}

fn show_ioerr(e: &io::Error) -> &'static str {
    probe(e);
    if e.kind() == io::ErrorKind::InvalidData {
        "utf8"
    } else {
        "io"
    }
}

/// an error no variant of which is named: an `io::Error` anywhere in its chain of sources is the reader's I/O error (C08), an
/// encoding complaint is the invalid-UTF-8 case, anything else is `other`
fn classify_unknown(e: &(dyn std::error::Error + 'static)) -> String {
    if let Some(io) = find_io(e) {
        return show_ioerr(io).into();
    }
    // no source() chain to walk (the pinned error types have none): the derived Debug output still shows an io::Error inside
    let text = format!("{} {:?}", e, e).to_lowercase();
    if text.contains("utf-8") || text.contains("utf8") || text.contains("kind: invaliddata") {
        return "utf8".into();
    }
    if text.contains("kind: ") || text.contains("os error") {
        return "io".into();
    }
    "other".into()
}

#[allow(dead_code)]
fn show_badline(e: &line::Error) -> String {
    probe(e);
    #[allow(unreachable_patterns)]
    match e {
        #[cfg(feature = "lin")]
        line::Error::InvalidHeaderRecord { line, .. } => format!("badline:h:{}", show_x(line.as_bytes())),
        #[cfg(feature = "lin")]
        line::Error::InvalidAlignmentDataRecord { line, .. } => format!("badline:d:{}", show_x(line.as_bytes())),
        other => format!("badline:{}", classify_unknown(other)),
    }
}

/// (is it a line error?, text)
#[allow(dead_code)]
fn show_readerr(e: &reader::Error) -> (bool, String) {
    probe(e);
    #[allow(unreachable_patterns)]
    match e {
        #[cfg(feature = "rdr")]
        reader::Error::Io(e) => (false, show_ioerr(e).into()),
        #[cfg(feature = "rdr")]
        reader::Error::Line(l) => (true, show_badline(l)),
        other => (false, classify_unknown(other)),
    }
}

fn show_secerr(e: &sections::Error) -> String {
    #[allow(unused_imports)]
    use sections::{Error as E, ParseError as P};
    probe(e);
    #[allow(unreachable_patterns)]
    match e {
        #[cfg(feature = "sec")]
        E::Parse(P::AbruptEndInSection { .. }) => "abrupt".into(),
        // `{ .. }` matches a unit, tuple or struct variant alike: only the variant NAME is relied on.  The line number of a blank-line
        // error (C05: "with its 1-based line number") is read from the derived Debug text, whatever the payload's shape; the
        // records carried by the other two kinds are no property's business and are not printed.
        #[cfg(feature = "sec")]
        E::Parse(p @ P::BlankLineInSection { .. }) => format!("blank:{}", number_after(&format!("{:?}", p), "BlankLineInSection")),
        #[cfg(feature = "sec")]
        E::Parse(P::DataBetweenSections { .. }) => "databetween".into(),
        #[cfg(feature = "sec")]
        E::Parse(P::HeaderInSection { .. }) => "hdrin".into(),
        #[cfg(feature = "sec")]
        E::Parse(P::Reader(r)) => show_readerr(r).1,
        other => classify_unknown(other),
    }
}

/// the first run of digits after `name` in `text` ("?" if there is none)
fn number_after(text: &str, name: &str) -> String {
    let rest = match text.rfind(name) {
        Some(i) => &text[i + name.len()..],
        None => text,
    };
    let digits: String = rest.chars().skip_while(|c| !c.is_ascii_digit()).take_while(|c| c.is_ascii_digit()).collect();
    if digits.is_empty() {
        "?".into()
    } else {
        digits
    }
}

/// the first `io::Error` in the chain of `source()`s of an error
fn find_io<'a>(e: &'a (dyn std::error::Error + 'static)) -> Option<&'a io::Error> {
    let mut cur: Option<&'a (dyn std::error::Error + 'static)> = Some(e);
    for _ in 0..16 {
        match cur {
            None => return None,
            Some(x) => {
                if let Some(io) = x.downcast_ref::<io::Error>() {
                    return Some(io);
                }
                cur = x.source();
            }
        }
    }
    None
}

fn show_sterr(e: &stepthrough::Error) -> String {
    probe(e);
    "step".into()
}

fn show_builderr(e: &machine::builder::Error) -> String {
    #[allow(unused_imports)]
    use machine::builder::Error as E;
    probe(e);
    #[cfg(feature = "bld")]
    if let E::InvalidSections(e) = e {
        return format!("sections:{}", show_secerr(e));
    }
    // any other (or unknown) variant: an I/O error anywhere in its chain of sources is the reader's
    match classify_unknown(e).as_str() {
        "other" => "invalid".into(),
        k => format!("sections:{}", k),
    }
}

fn show_section(s: &Section) -> String {
    if s.reference_sequence() != s.header().reference_sequence() || s.query_sequence() != s.header().query_sequence() {
        return format!("NOTEQUAL-section {:?}", s);
    }
    format!(
        "S({};{})",
        show_header(s.header()),
        s.data().iter().map(show_drec).collect::<Vec<_>>().join(",")
    )
}

fn show_sitem(x: &Result<Section, sections::Error>) -> String {
    match x {
        Ok(s) => show_section(s),
        Err(e) => format!("E({})", show_secerr(e)),
    }
}

fn show_dict(d: &std::collections::HashMap<String, u64>) -> String {
    let mut v: Vec<(&String, &u64)> = d.iter().collect();
    v.sort_by(|a, b| a.0.as_bytes().cmp(b.0.as_bytes()));
    v.iter()
        .map(|(k, n)| format!("{}={}", show_x(k.as_bytes()), n))
        .collect::<Vec<_>>()
        .join(",")
}

pub fn show_lift(m: &Machine, i: Interval) -> String {
    match catch_unwind(AssertUnwindSafe(|| m.liftover(i))) {
        Err(_) => "panic".into(),
        Ok(None) => "none".into(),
        Ok(Some(l)) => format!("some[{}]", l.iter().map(show_pair).collect::<Vec<_>>().join(",")),
    }
}

// ---------------------------------------------------------------------------------------------
// commands
// ---------------------------------------------------------------------------------------------

fn guard<F: FnOnce() -> String>(f: F) -> String {
    match catch_unwind(AssertUnwindSafe(f)) {
        Ok(s) => s,
        Err(_) => "panic".into(),
    }
}

fn cmd_clamp(r: &str, q: &str, i: &str) -> String {
    match (parse_ival(r), parse_ival(q), parse_ival(i)) {
        (Some(Ok(r)), Some(Ok(q)), Some(Ok(i))) => match ContiguousIntervalPair::try_new(r, q) {
            Err(e) => format!("err {}", show_perr(&e)),
            Ok(p) => guard(|| match p.clamp(i) {
                Ok(c) => format!("ok {}", show_pair(&c)),
                Err(e) => format!("err {}", show_perr(&e)),
            }),
        },
        (Some(_), Some(_), Some(_)) => "badival".into(),
        _ => "badcase".into(),
    }
}

fn cmd_plift(r: &str, q: &str, c: &str) -> String {
    match (parse_ival(r), parse_ival(q), parse_coord(c)) {
        (Some(Ok(r)), Some(Ok(q)), Some(c)) => match ContiguousIntervalPair::try_new(r, q) {
            Err(e) => format!("err {}", show_perr(&e)),
            Ok(p) => guard(|| match p.liftover(&c) {
                None => "none".into(),
                Some(c) => format!("some {}", show_coord(&c)),
            }),
        },
        (Some(_), Some(_), Some(_)) => "badival".into(),
        _ => "badcase".into(),
    }
}

fn cmd_ptry(r: &str, q: &str) -> String {
    match (parse_ival(r), parse_ival(q)) {
        (Some(Ok(r)), Some(Ok(q))) => guard(|| match ContiguousIntervalPair::try_new(r, q) {
            Err(e) => format!("err {}", show_perr(&e)),
            Ok(p) => format!("ok {}", show_pair(&p)),
        }),
        (Some(_), Some(_)) => "badival".into(),
        _ => "badcase".into(),
    }
}

fn cmd_seq(a: &[&str]) -> String {
    let p: Option<Vec<String>> = a.iter().map(|t| parse_xs(t)).collect();
    let p = match p {
        Some(p) => p,
        None => return "badcase".into(),
    };
    guard(|| match Sequence::try_from_str_parts(&p[0], &p[1], &p[2], &p[3], &p[4]) {
        Err(e) => format!("err {}", show_seqerr(&e)),
        Ok(s) => {
            let iv = match catch_unwind(AssertUnwindSafe(|| s.interval())) {
                Err(_) => "panic".to_string(),
                Ok(Ok(i)) => format!("ok {}", show_ival(&i)),
                Ok(Err(e)) => format!("err {}", show_seqerr(&e)),
            };
            format!("ok {} {}", show_seq(&s), iv)
        }
    })
}

fn cmd_drec(s: &str, dt: &str, dq: &str, k: &str) -> String {
    match (parse_n(s), parse_opt_n(dt), parse_opt_n(dq)) {
        (Some(s), Some(dt), Some(dq)) => {
            let kind = if k == "T" { Kind::Terminating } else { Kind::NonTerminating };
            guard(|| match DataRecord::try_new(s, dt, dq, kind) {
                Ok(d) => {
                    let p = match catch_unwind(AssertUnwindSafe(|| d.to_string())) {
                        Ok(p) => show_x(p.as_bytes()),
                        Err(_) => "panic".into(),
                    };
                    format!("ok {} {}", show_drec(&d), p)
                }
                Err(e) => {
                    probe(&e);
                    "err".into()
                }
            })
        }
        _ => "badcase".into(),
    }
}

fn cmd_pline(a: &str) -> String {
    // the parser only ever sees `&str`; a case that is not UTF-8 is not a case for this command
    match parse_xs(a) {
        None => "badcase".into(),
        Some(l) => guard(|| {
            // C14: the record parsers called directly must agree with the line parser on every text
            let text = l.clone();
            let direct_h = text.parse::<HeaderRecord>();
            let direct_d = text.parse::<DataRecord>();
            if let Err(e) = &direct_h {
                probe(e);
            }
            if let Err(e) = &direct_d {
                probe(e);
            }
            let parsed = text.parse::<Line>();
            let agree = match &parsed {
                Ok(Line::Empty) => true,
                Ok(Line::Header(h)) => direct_h.as_ref().ok() == Some(h),
                Ok(Line::AlignmentData(d)) => direct_d.as_ref().ok() == Some(d),
                #[cfg(feature = "lin")]
                Err(line::Error::InvalidHeaderRecord { .. }) => direct_h.is_err(),
                #[cfg(feature = "lin")]
                Err(line::Error::InvalidAlignmentDataRecord { .. }) => direct_d.is_err(),
                #[allow(unreachable_patterns)]
                Err(_) => true,
            };
            if !agree {
                return format!("NOTEQUAL-direct {:?} VS {:?} / {:?}", parsed, direct_h, direct_d);
            }
            match parsed {
            Ok(l) => {
                // C13: the printed text must parse back to a record that is equal in the crate's own sense (`==`),
                // also after the record has been used (interval() on its sequences)
                if let Ok(printed) = catch_unwind(AssertUnwindSafe(|| l.to_string())) {
                    if let Ok(l2) = printed.parse::<Line>() {
                        if let Line::Header(h) = &l {
                            let _ = h.reference_sequence().interval();
                            let _ = h.query_sequence().interval();
                        }
                        if l2 != l {
                            return format!("NOTEQUAL {:?} VS {:?}", l, l2);
                        }
                    }
                }
                show_line(&l)
            }
            Err(e) => show_lineerr(&e),
            }
        }),
    }
}

fn cmd_sections(a: &str) -> String {
    let ev = match parse_src(a) {
        Some(e) => e,
        None => return "badcase".into(),
    };
    guard(|| {
        let same = reserialised_sections_equal(ev.clone());
        let ev_again = ev.clone();
        let mut reader = Reader::new(Script::new(ev));
        let mut out = vec![];
        if !same {
            out.push("NOTEQUAL-file".to_string());
        }
        let mut it = reader.sections();
        let mut ended = false;
        for _ in 0..CAP {
            match it.next() {
                None => {
                    ended = true;
                    break;
                }
                Some(x) => {
                    // C13: a section that has been stepped through must still equal a pristine copy of itself
                    if let Ok(sec) = &x {
                        let pristine = sec.clone();
                        if let Ok(it) = sec.stepthrough() {
                            for _ in it.take(CAP) {}
                        }
                        let reparsed: Option<chainfile::alignment::section::header::Record> =
                            sec.header().to_string().parse().ok();
                        if *sec != pristine || reparsed.as_ref() != Some(sec.header()) {
                            out.push("NOTEQUAL".into());
                        }
                    }
                    out.push(show_sitem(&x))
                }
            }
        }
        if ended {
            let n = out.iter().filter(|x| x.starts_with("S(") || x.starts_with("E(")).count();
            let cnt = Reader::new(Script::new(ev_again.clone())).sections().count();
            let last = Reader::new(Script::new(ev_again)).sections().last().map(|x| show_sitem(&x));
            let want = out.iter().rev().find(|x| x.starts_with("S(") || x.starts_with("E(")).cloned();
            if cnt != n || last != want {
                out.push(format!("NOTEQUAL-iter count={} last={:?}", cnt, last));
            }
        }
        out.push(if ended { "end".into() } else { "cap".into() });
        out.join(" ")
    })
}

/// C13, whole files, in the crate's own sense of equality: the sections of the stream up to its first error, re-serialised
/// (header line, data lines, blank line), must parse back to sections that are `==` to the originals.
fn reserialised_sections_equal(ev: Vec<Event>) -> bool {
    let mut reader = Reader::new(Script::new(ev));
    let mut secs: Vec<Section> = vec![];
    for x in reader.sections().take(CAP) {
        match x {
            Ok(s) => secs.push(s),
            Err(_) => break,
        }
    }
    let mut text = String::new();
    for s in &secs {
        text.push_str(&s.header().to_string());
        text.push('\n');
        for d in s.data().iter() {
            text.push_str(&d.to_string());
            text.push('\n');
        }
        text.push('\n');
    }
    let mut again = Reader::new(Script::new(vec![Event::Chunk(text.into_bytes())]));
    let back: Vec<Section> = match again.sections().take(CAP + 1).collect::<Result<Vec<_>, _>>() {
        Ok(v) => v,
        Err(_) => return false,
    };
    back == secs
}

fn show_parsed_io(r: &io::Result<Line>) -> String {
    match r {
        Ok(l) => show_line(l),
        Err(e) => {
            if let Some(inner) = e.get_ref().and_then(|i| i.downcast_ref::<line::Error>()) {
                show_lineerr(inner)
            } else {
                format!("err:{}", show_ioerr(e))
            }
        }
    }
}

fn cmd_lines(a: &str) -> String {
    let ev = match parse_src(a) {
        Some(e) => e,
        None => return "badcase".into(),
    };
    guard(|| {
        let mut reader = Reader::new(Script::new(ev));
        let mut out = vec![];
        let mut ended = false;
        {
            let mut it = reader.lines();
            for _ in 0..100000 {
                match it.next() {
                    None => {
                        ended = true;
                        break;
                    }
                    Some(x) => out.push(show_parsed_io(&x)),
                }
            }
        }
        out.push(if ended { "end".into() } else { "cap".into() });
        out.join(" ")
    })
}

fn show_raw(r: &io::Result<usize>, buf: &str) -> String {
    match r {
        Ok(0) => "eof".into(),
        Ok(n) => format!("{}:{}", n, show_x(buf.as_bytes())),
        Err(e) => format!("err:{}", show_ioerr(e)),
    }
}

fn cmd_raw(a: &str) -> String {
    let ev = match parse_src(a) {
        Some(e) => e,
        None => return "badcase".into(),
    };
    guard(|| {
        let mut reader = Reader::new(Script::new(ev));
        let mut out = vec![];
        let mut buf = String::new();
        let mut ended = false;
        for _ in 0..100000 {
            let r = reader.read_line_raw(&mut buf);
            if let Ok(0) = r {
                ended = true;
                break;
            }
            out.push(show_raw(&r, &buf));
        }
        out.push(if ended { "end".into() } else { "cap".into() });
        out.join(" ")
    })
}

fn build_section(hdr: &str, recs: &str) -> Result<Section, String> {
    let hl = parse_xs(hdr).ok_or("badcase")?;
    let h = hl.parse::<HeaderRecord>().map_err(|_| "badcase".to_string())?;
    // C03/C05: a section cannot be made without a header, without data, or with two headers
    let structural = catch_unwind(AssertUnwindSafe(|| {
        let e1 = SectionBuilder::default().try_build();
        let e2 = SectionBuilder::default().header(h.clone()).and_then(|b| b.try_build());
        let e3 = SectionBuilder::default().header(h.clone()).and_then(|b| b.header(h.clone()));
        for e in [e1.as_ref().err(), e2.as_ref().err(), e3.as_ref().map(|_| ()).err()].into_iter().flatten() {
            probe(e);
        }
        e1.is_err() && e2.is_err() && e3.is_err()
    }));
    match structural {
        Ok(true) => {}
        Ok(false) => return Err("NOTEQUAL-builder".into()),
        Err(_) => return Err("panic".into()),
    }
    let mut b = SectionBuilder::default().header(h).map_err(|_| "badcase".to_string())?;
    for t in recs.split(',') {
        let p: Vec<&str> = t.split('/').collect();
        if p.len() != 4 {
            return Err("badrec".into());
        }
        match (parse_n(p[0]), parse_opt_n(p[1]), parse_opt_n(p[2])) {
            (Some(s), Some(dt), Some(dq)) => {
                let kind = if p[3] == "T" { Kind::Terminating } else { Kind::NonTerminating };
                match DataRecord::try_new(s, dt, dq, kind) {
                    Ok(d) => b = b.push_data(d),
                    Err(_) => return Err("badrec".into()),
                }
            }
            _ => return Err("badrec".into()),
        }
    }
    b.try_build().map_err(|_| "badrec".to_string())
}

fn cmd_step(hdr: &str, recs: &str) -> String {
    let sec = match build_section(hdr, recs) {
        Ok(s) => s,
        Err(e) => return e,
    };
    guard(|| {
        let with = match sec.stepthrough_with_data() {
            Err(e) => return format!("newerr:{}", show_sterr(&e)),
            Ok(it) => it,
        };
        let _ = format!("{:?}", with);
        let mut out = vec![];
        let mut ended = false;
        let mut it = with;
        for _ in 0..CAP {
            match it.next() {
                None => {
                    ended = true;
                    break;
                }
                Some(Ok((p, d))) => out.push(format!("P({};{})", show_pair(&p), show_drec(&d))),
                Some(Err(e)) => out.push(format!("E({})", show_sterr(&e))),
            }
        }
        out.push(if ended { "end".into() } else { "cap".into() });
        // the data-less step-through must yield the same pairs
        let mut out2 = vec![];
        let mut ended2 = false;
        match sec.stepthrough() {
            Err(_) => return "stepthrough-new-disagrees".into(),
            Ok(mut it2) => {
                for _ in 0..CAP {
                    match it2.next() {
                        None => {
                            ended2 = true;
                            break;
                        }
                        Some(Ok(p)) => out2.push(format!("P({}", show_pair(&p))),
                        Some(Err(e)) => out2.push(format!("E({})", show_sterr(&e))),
                    }
                }
            }
        }
        // the iterator's other consuming methods (an impl may override them) must agree with next(): C04/C07 are about the
        // items of the iteration, however it is consumed
        if ended {
            let item = |x: Result<(ContiguousIntervalPair, DataRecord), stepthrough::Error>| match x {
                Ok((p, d)) => format!("P({};{})", show_pair(&p), show_drec(&d)),
                Err(e) => format!("E({})", show_sterr(&e)),
            };
            let n = out.len() - 1;
            let fresh = || sec.stepthrough_with_data();
            let (lo, hi) = match fresh() {
                Ok(it) => it.size_hint(),
                Err(_) => (0, Some(0)),
            };
            let cnt = fresh().map(|it| it.count()).unwrap_or(0);
            let last = fresh().ok().and_then(|it| it.last()).map(item);
            let second = fresh().ok().and_then(|mut it| it.nth(1)).map(item);
            if lo > n || hi.map_or(false, |h| h < n) || cnt != n || last.as_ref() != (if n > 0 { out.get(n - 1) } else { None })
                || second.as_ref() != (if n > 1 { out.get(1) } else { None })
            {
                return format!("NOTEQUAL-iter size_hint=({},{:?}) count={} last={:?} nth1={:?} VS {}", lo, hi, cnt, last, second, out.join(" "));
            }
        }
        if ended != ended2
            || out2.len() + 1 != out.len()
            || !out2.iter().zip(out.iter()).all(|(a, b)| b.starts_with(a.as_str()))
        {
            return format!("stepthrough-disagrees {} VS {}", out.join(" "), out2.join(" "));
        }
        out.join(" ")
    })
}

pub fn build_machine(ev: Vec<Event>) -> Result<Result<Machine, String>, ()> {
    catch_unwind(AssertUnwindSafe(|| {
        let reader = Reader::new(Script::new(ev));
        machine::Builder.try_build_from(reader).map_err(|e| show_builderr(&e))
    }))
    .map_err(|_| ())
}

fn cmd_build(a: &str, qs: &str) -> String {
    let ev = match parse_src(a) {
        Some(e) => e,
        None => return "badcase".into(),
    };
    match build_machine(ev) {
        Err(()) => "panic".into(),
        Ok(Err(e)) => format!("err {}", e),
        Ok(Ok(m)) => {
            let mut out = vec![
                "ok".to_string(),
                format!("ref={}", show_dict(m.reference_chromosomes())),
                format!("qry={}", show_dict(m.query_chromosomes())),
            ];
            if qs != "-" {
                for t in qs.split(',') {
                    out.push(match parse_ival(t) {
                        Some(Ok(i)) => show_lift(&m, i),
                        Some(Err(())) => "badival".into(),
                        None => "badcase".into(),
                    });
                }
            }
            out.join(" ")
        }
    }
}

fn cmd_ops(a: &str, ops: &str) -> String {
    let ev = match parse_src(a) {
        Some(e) => e,
        None => return "badcase".into(),
    };
    if !ops.bytes().all(|b| b"rplsn".contains(&b)) {
        return "badcase".into();
    }
    guard(|| {
        let script = Script::new(ev);
        let pos = script.consumed.clone();
        let mut reader = Reader::new(script);
        let mut out: Vec<String> = vec![];
        let ops = ops.as_bytes();
        let mut k = 0;
        let mut buf = String::new();
        while k < ops.len() {
            match ops[k] {
                b'n' => {
                    out.push("n".into());
                    k += 1;
                }
                b'r' => {
                    let r = reader.read_line_raw(&mut buf);
                    out.push(format!("{}@{}", show_raw(&r, &buf), pos.get()));
                    k += 1;
                }
                b'p' => {
                    let r = reader.read_line(&mut buf);
                    let s = match &r {
                        Ok(None) => "eof".to_string(),
                        Ok(Some(l)) => show_line(l),
                        Err(e) => {
                            probe(e);
                            #[allow(unreachable_patterns)]
                            match e {
                                #[cfg(feature = "rdr")]
                                reader::Error::Io(e) => format!("err:{}", show_ioerr(e)),
                                #[cfg(feature = "rdr")]
                                reader::Error::Line(e) => show_lineerr(e),
                                other => format!("err:{}", classify_unknown(other)),
                            }
                        }
                    };
                    out.push(format!("{}@{}", s, pos.get()));
                    k += 1;
                }
                b'l' => {
                    let r = reader.lines().next();
                    let s = match &r {
                        None => "eof".to_string(),
                        Some(x) => show_parsed_io(x),
                    };
                    out.push(format!("{}@{}", s, pos.get()));
                    k += 1;
                }
                _ => {
                    // a run of consecutive `s` ops shares one Sections iterator
                    let mut run = 0;
                    while k + run < ops.len() && ops[k + run] == b's' {
                        run += 1;
                    }
                    let mut it = reader.sections();
                    for _ in 0..run {
                        let x = it.next();
                        let s = match &x {
                            None => "end".to_string(),
                            Some(y) => show_sitem(y),
                        };
                        out.push(format!("{}@{}", s, pos.get()));
                    }
                    k += run;
                }
            }
        }
        // the reader hands its source back where the cursor stands (C17: one cursor, nothing buffered aside)
        if reader.inner().consumed.get() != pos.get() || reader.into_inner().consumed.get() != pos.get() {
            out.push("NOTEQUAL-inner".into());
        }
        out.join(" ")
    })
}

pub fn parse_ival_pub(t: &str) -> Option<Result<Interval, ()>> {
    parse_ival(t)
}

pub fn show_dict_pub(d: &std::collections::HashMap<String, u64>) -> String {
    show_dict(d)
}

fn run_case(line: &str) -> String {
    let t: Vec<&str> = line.split(' ').collect();
    match (t[0], t.len()) {
        ("clamp", 4) => cmd_clamp(t[1], t[2], t[3]),
        ("plift", 4) => cmd_plift(t[1], t[2], t[3]),
        ("ptry", 3) => cmd_ptry(t[1], t[2]),
        ("step", 3) => cmd_step(t[1], t[2]),
        ("build", 3) => cmd_build(t[1], t[2]),
        ("ops", 3) => cmd_ops(t[1], t[2]),
        ("pline", 2) => cmd_pline(t[1]),
        ("sections", 2) => cmd_sections(t[1]),
        ("lines", 2) => cmd_lines(t[1]),
        ("raw", 2) => cmd_raw(t[1]),
        ("seq", 6) => cmd_seq(&t[1..]),
        ("drec", 5) => cmd_drec(t[1], t[2], t[3], t[4]),
        ("threads", 4) => threads::cmd_threads(t[1], t[2], t[3]),
        _ => "badcase".into(),
    }
}

fn main() {
    std::panic::set_hook(Box::new(|_| {}));
    let stdin = io::stdin();
    let stdout = io::stdout();
    let mut out = io::BufWriter::new(stdout.lock());
    for line in stdin.lock().lines() {
        let line = line.expect("stdin");
        let r = run_case(&line);
        writeln!(out, "{}", r).expect("stdout");
    }
    out.flush().expect("flush");
}
