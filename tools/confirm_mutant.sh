#!/bin/bash
# usage: confirm_mutant.sh <worktree> <N> <seeded-id> <property>
# Confirms in the scratch worktree that mutantN compiles, passes the existing tests, that its demo fails with it and
# passes without it; then files it under /verif/seeded/<seeded-id>/.
set -u
WT=$1; N=$2; ID=$3; PROP=$4; LOGD=$(dirname $WT)
export CARGO_NET_OFFLINE=true CARGO_TARGET_DIR=$WT/target
cd $WT || exit 2
git checkout -q -- . && git clean -fdq tests 2>/dev/null
mkdir -p tests
cp MUTANT/demo_mutant$N.rs tests/demo_mutant$N.rs
echo "== demo on original"
cargo test --offline --test demo_mutant$N >$LOGD/log_$ID.orig 2>&1; ORIG=$?
git apply MUTANT/mutant$N.diff || { echo "patch does not apply"; exit 3; }
echo "== existing tests with the change"
rm tests/demo_mutant$N.rs
cargo test --offline >$LOGD/log_$ID.tests 2>&1; TESTS=$?
cp MUTANT/demo_mutant$N.rs tests/demo_mutant$N.rs
echo "== demo with the change"
cargo test --offline --test demo_mutant$N >$LOGD/log_$ID.mut 2>&1; MUT=$?
git checkout -q -- . ; rm -f tests/demo_mutant$N.rs; rmdir tests 2>/dev/null
echo "orig=$ORIG tests=$TESTS mutant=$MUT"
if [ $ORIG -eq 0 ] && [ $TESTS -eq 0 ] && [ $MUT -ne 0 ]; then
  D=/verif/seeded/$ID; mkdir -p $D
  cp MUTANT/mutant$N.diff $D/patch.diff; cp MUTANT/demo_mutant$N.rs $D/demo.rs; cp MUTANT/mutant$N.md $D/notes.md
  python3 - "$D" "$PROP" "$N" <<'PY'
import json,sys
d,prop,n=sys.argv[1:4]
notes=open(d+'/notes.md').read()
json.dump({"property":prop,"origin":"independent sub-agent given only the property text and a scratch worktree",
 "needs_to_manifest":notes[:1500],
 "confirmed":{"demo_on_original":"passes","existing_tests_with_change":"pass (cargo test --offline: 52 unit + doc tests)","demo_with_change":"fails"},
 "commands":["cargo test --offline --test demo_mutant%s (original) -> ok"%n,"git apply patch.diff && cargo test --offline -> ok","cargo test --offline --test demo_mutant%s (changed) -> FAILED"%n]},
 open(d+'/meta.json','w'),indent=1)
PY
  echo "CONFIRMED -> $D"
else
  echo "NOT CONFIRMED"; tail -5 $LOGD/log_$ID.orig $LOGD/log_$ID.tests $LOGD/log_$ID.mut
fi
