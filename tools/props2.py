"""Generators and oracles of the liftover family (C01 C02 C03 C09 C10 C11 C16) and of C06 C08 C12 C13 C17 C18."""
import collections
import copy
import random

import gen
from gen import U64, xtok, ival_tok, parse_ival, parse_pair, parse_lift
from props import oracle, group, gen_line_seq, gen_header_text, gen_step_case, rec_tok, py_u64, gen_line_text, sections_case


def build_case(data, queries, chunks=None):
    return "build %s %s" % (gen.src_tok(data, chunks), ",".join(ival_tok(q) for q in queries) if queries else "-")


def split_build(o):
    """-> (status, ref dict, qry dict, [answers])"""
    t = o.split(" ")
    if t[0] != "ok":
        return t[0], None, None, t[1:]

    def d(tok):
        body = tok.split("=", 1)[1]
        out = {}
        if body:
            for kv in body.split(","):
                k, v = kv.split("=")
                out[bytes.fromhex(k[1:]).decode("latin-1")] = int(v)
        return out
    return "ok", d(t[1]), d(t[2]), t[3:]


def nonempty(run):
    return run[0][2] != run[0][3]


def run_len(run):
    return abs(run[0][3] - run[0][2])


def bases_multiset(runs, limit=4000):
    c = collections.Counter()
    for r in runs:
        for b in gen.bases_of_run(r, limit):
            c[b] += 1
    return c


def small(runs, limit=4000):
    return sum(run_len(r) for r in runs) <= limit


def gen_file_and_queries(rng, nq, **kw):
    f = gen.gen_file(rng, **kw)
    return f, gen.gen_intervals(rng, f, nq)


def file_params(f, queries):
    return {"file": f, "queries": [list(q) for q in queries]}


def load_file(params):
    f = params["file"]
    for c in f:
        c["blocks"] = [tuple(b) for b in c["blocks"]]
    return f, [tuple(q) for q in params["queries"]]


# ------------------------------------------------------------------------------------------------
# C01 / C02
# ------------------------------------------------------------------------------------------------

def gen_lift(rng, tier, oracle_name, nfiles_q=220, nfiles_t=12000, zero=False):
    n = nfiles_q if tier == "quick" else nfiles_t
    groups = []
    for k in range(n):
        big = rng.random() < 0.15
        zb = zero and rng.random() < 0.2
        f, qs = gen_file_and_queries(rng, 24, big=big, zero_blocks=zb)
        fam = ("big" if big else "small") + ("-zero" if zb else "") + "-%dchains" % min(len(f), 4)
        groups.append(group(fam, oracle_name, [build_case(gen.render(f, blanks=rng.choice([0, 1, 1, 2])), qs)], params=file_params(f, qs)))
    if tier == "thorough":
        groups += exhaustive_small(oracle_name, zero)
    return groups


def exhaustive_small(oracle_name, zero):
    """small scope, enumerated completely: one chain, all four strand pairs, 1-3 blocks with sizes in {1,2} (and 0 when allowed),
    gaps in {0,1,2}^2, leading offset 0/1 on each side, x every interval [a,b) with 0<=a<=b<=size+1 on both strands"""
    import itertools
    sizes = [0, 1, 2] if zero else [1, 2]
    out = []
    for nb in (1, 2, 3):
        for szs in itertools.product(sizes, repeat=nb):
            for gaps in itertools.product([(0, 0), (0, 1), (1, 0), (1, 2), (2, 2)], repeat=nb - 1):
                blocks = [(szs[k],) + gaps[k] for k in range(nb - 1)] + [(szs[-1],)]
                tlen = sum(b[0] + (b[1] if len(b) == 3 else 0) for b in blocks)
                qlen = sum(b[0] + (b[2] if len(b) == 3 else 0) for b in blocks)
                for ts, qs_, t0, q0 in itertools.product("+-", "+-", (0, 1), (0, 1)):
                    c = dict(score=0, tname="a", tsize=t0 + tlen + 1, tstrand=ts, tstart=t0, tend=t0 + tlen,
                             qname="b", qsize=q0 + qlen, qstrand=qs_, qstart=q0, qend=q0 + qlen, id=1, blocks=blocks)
                    size = c["tsize"]
                    ivs = []
                    for a in range(size + 2):
                        for b in range(a, size + 2):
                            ivs.append(("a", "+", a, b))
                            ivs.append(("a", "-", b, a))
                    out.append(group("exhaustive-small", oracle_name, [build_case(gen.render([c]), ivs)], params=file_params([c], ivs)))
    return out


def gen_C01(rng, tier):
    return gen_lift(rng, tier, "c01_sound", zero=True)


def gen_C02(rng, tier):
    return gen_lift(rng, tier, "c02_complete", zero=False)


@oracle("c01_sound")
def o_c01(params, cases, outs):
    f, qs = load_file(params)
    st, _, _, ans = split_build(outs[0])
    if st != "ok":
        return "a well-formed file was not accepted: %s" % outs[0][:200]
    for q, a in zip(qs, ans):
        got = parse_lift(a)
        if got is None:
            return "liftover of %s: %s" % (q, a)
        exp = gen.expected_lift(f, q)
        for (r, qq) in got:
            if abs(r[3] - r[2]) != abs(qq[3] - qq[2]):
                return "returned pair with unequal lengths: %s" % ((r, qq),)
        got = [g for g in got if nonempty(g)]
        if small(got) and small(exp):
            gb, eb = bases_multiset(got), bases_multiset(exp)
            bad = gb - eb
            if bad:
                b = next(iter(bad))
                return "liftover of %s returned base pairing %s which no block of the file aligns" % (q, b)
        else:
            ec = collections.Counter(exp)
            for g in got:
                if ec[g] <= 0:
                    return "liftover of %s returned %s which is not the clipping of any block" % (q, g)
                ec[g] -= 1
    return None


@oracle("c02_complete")
def o_c02(params, cases, outs):
    f, qs = load_file(params)
    st, _, _, ans = split_build(outs[0])
    if st != "ok":
        return "a well-formed file was not accepted: %s" % outs[0][:200]
    for q, a in zip(qs, ans):
        got = parse_lift(a)
        if got is None:
            return "liftover of %s: %s" % (q, a)
        if q[2] == q[3]:
            continue  # the property quantifies over non-empty intervals
        exp = gen.expected_lift(f, q)
        if (a == "none") != (len(exp) == 0):
            return "liftover of %s answered %s but %d block(s) align bases of it" % (q, a[:80], len(exp))
        if small(got) and small(exp):
            gb, eb = bases_multiset(got), bases_multiset(exp)
            if gb != eb:
                miss, extra = eb - gb, gb - eb
                return "liftover of %s: base pairings differ from the file's (missing %s, extra %s)" % (
                    q, list(miss.items())[:2], list(extra.items())[:2])
        elif sorted(got) != sorted(exp):
            return "liftover of %s returned %s, the aligning blocks clip to %s" % (q, sorted(got)[:3], sorted(exp)[:3])
    return None


# ------------------------------------------------------------------------------------------------
# C09
# ------------------------------------------------------------------------------------------------

def gen_C09(rng, tier):
    n = 200 if tier == "quick" else 10500
    groups = []
    for _ in range(n):
        f = gen.gen_file(rng, big=rng.random() < 0.1, zero_blocks=rng.random() < 0.1)
        ivs = [q for q in gen.gen_intervals(rng, f, 12) if q[2] != q[3]]
        qs, plan = [], []
        for iv in ivs[:6]:
            lo, hi = min(iv[2], iv[3]), max(iv[2], iv[3])
            pts = [p for p in gen.boundary_points(f, iv[0], iv[1]) if lo <= p <= hi] + [rng.randint(lo, hi), lo, hi]
            c = rng.choice(pts)
            if iv[1] == "+":
                p1, p2 = (iv[0], "+", iv[2], c), (iv[0], "+", c, iv[3])
            else:
                p1, p2 = (iv[0], "-", iv[2], c), (iv[0], "-", c, iv[3])
            singles = []
            if hi - lo <= 12:
                for x in range(lo, hi):
                    singles.append((iv[0], iv[1], x, x + 1) if iv[1] == "+" else (iv[0], iv[1], x + 1, x))
            plan.append((len(qs), 1 + 2 + len(singles)))
            qs += [iv, p1, p2] + singles
        if not qs:
            continue
        groups.append(group("split", "c09_split", [build_case(gen.render(f), qs)],
                            params={"file": f, "queries": [list(q) for q in qs], "plan": plan}))
    return groups


@oracle("c09_split")
def o_c09(params, cases, outs):
    f, qs = load_file(params)
    st, _, _, ans = split_build(outs[0])
    if st != "ok":
        return "a well-formed file was not accepted: %s" % outs[0][:200]
    res = []
    for q, a in zip(qs, ans):
        g = parse_lift(a)
        if g is None:
            return "liftover of %s: %s" % (q, a)
        res.append([x for x in g if nonempty(x)])
    for (i0, n) in params["plan"]:
        iv, whole, p1, p2 = qs[i0], res[i0], res[i0 + 1], res[i0 + 2]
        lo, hi = min(iv[2], iv[3]), max(iv[2], iv[3])
        for (r, _q) in whole:
            if r[0] != iv[0] or r[1] != iv[1] or min(r[2], r[3]) < lo or max(r[2], r[3]) > hi:
                return "pair %s reaches outside the requested interval %s" % (r, iv)
        if small(whole) and small(p1) and small(p2):
            if bases_multiset(whole) != bases_multiset(p1) + bases_multiset(p2):
                return "lifting %s differs from the union of lifting its parts %s and %s" % (iv, qs[i0 + 1], qs[i0 + 2])
            if n > 3:
                u = collections.Counter()
                for k in range(3, n):
                    u += bases_multiset(res[i0 + k])
                if bases_multiset(whole) != u:
                    return "lifting %s differs from the union over its single bases" % (iv,)
        else:
            tot = sum(run_len(r) for r in whole)
            if tot != sum(run_len(r) for r in p1) + sum(run_len(r) for r in p2):
                return "lifting %s: base count differs from its parts" % (iv,)
    return None


# ------------------------------------------------------------------------------------------------
# C10
# ------------------------------------------------------------------------------------------------

def swap_chain(c):
    d = dict(c)
    for a, b in (("tname", "qname"), ("tsize", "qsize"), ("tstrand", "qstrand"), ("tstart", "qstart"), ("tend", "qend")):
        d[a], d[b] = c[b], c[a]
    d["blocks"] = [((b[0], b[2], b[1]) if len(b) == 3 else b) for b in c["blocks"]]
    return d


def gen_C10(rng, tier):
    n = 200 if tier == "quick" else 10500
    groups = []
    for _ in range(n):
        f = gen.gen_file(rng, big=rng.random() < 0.1)
        qs = [q for q in gen.gen_intervals(rng, f, 10) if q[2] != q[3]]
        sw = [swap_chain(c) for c in f]
        back = []
        for q in qs:
            for (r, qq) in gen.expected_lift(f, q)[:3]:
                back.append((list(q), list(r), list(qq)))
        if not back:
            continue
        back = back[:16]
        q2 = [tuple(b[2]) for b in back]
        groups.append(group("swap", "c10_swap", [build_case(gen.render(f), qs), build_case(gen.render(sw), q2)],
                            params={"back": back}))
    return groups


@oracle("c10_swap")
def o_c10(params, cases, outs):
    st, _, _, _ = split_build(outs[0])
    st2, _, _, ans2 = split_build(outs[1])
    if st != "ok" or st2 != "ok":
        return "file or swapped file not accepted: %s / %s" % (outs[0][:100], outs[1][:100])
    for (q, r, qq), a in zip(params["back"], ans2):
        got = parse_lift(a)
        if got is None:
            return "liftover over the swapped file: %s" % a
        want = (tuple(qq), tuple(r))
        if want not in got:
            return "the file aligns %s to %s, but the swapped file lifts %s to %s" % (r, qq, qq, got[:3])
    return None


# ------------------------------------------------------------------------------------------------
# C11
# ------------------------------------------------------------------------------------------------

def gen_C11(rng, tier):
    n = 150 if tier == "quick" else 7500
    groups = []
    for _ in range(n):
        f = gen.gen_file(rng, max_chains=6, big=rng.random() < 0.1)
        qs = gen.gen_intervals(rng, f, 14)
        idx = list(range(len(f)))
        rng.shuffle(idx)
        k = rng.randint(0, len(f))
        f1 = [f[i] for i in sorted(idx[:k])]
        f2 = [f[i] for i in sorted(idx[k:])]
        perm = list(f)
        rng.shuffle(perm)
        extra = list(f)
        other = gen.gen_file(rng, max_chains=2)
        for c in other:  # chains on other reference contigs never change what f contributes
            c = dict(c)
            c["tname"] = "zz" + c["tname"]
            c["qname"] = "zq" + c["qname"]
            extra.insert(rng.randint(0, len(extra)), c)
        cases = [build_case(gen.render(x), qs) for x in (f, f1, f2, perm, extra)]
        # the same bytes again in the same process (a second build): a trailing unknown-contig query makes the line distinct
        cases.append(build_case(gen.render(f), qs + [("nosuch2", "+", 0, 1)]))
        groups.append(group("partition", "c11_union", cases, params={"nq": len(qs)}))
    return groups


def fwd_start(run):
    r = run[0]
    return min(r[2], r[3])


@oracle("c11_union")
def o_c11(params, cases, outs):
    nq = params["nq"]
    parsed = []
    for o in outs:
        st, _, _, ans = split_build(o)
        if st != "ok":
            return "a well-formed (sub)file was not accepted: %s" % o[:160]
        parsed.append([parse_lift(a) for a in ans[:nq]])
    whole, p1, p2, perm, extra, again = parsed
    for i in range(nq):
        if any(x[i] is None for x in parsed):
            return "liftover panicked"
        w = whole[i]
        starts = [fwd_start(r) for r in w]
        if starts != sorted(starts):
            return "pairs of one answer are not ordered by forward reference start: %s" % (w[:4],)
        if collections.Counter(w) != collections.Counter(p1[i]) + collections.Counter(p2[i]):
            return "result over the file is not the multiset union of the results over the two parts (query %d)" % i
        if collections.Counter(w) != collections.Counter(perm[i]):
            return "reordering the chains changed the result (query %d)" % i
        if collections.Counter(w) != collections.Counter(extra[i]):
            return "adding chains on other contigs changed the result (query %d)" % i
        if w != again[i]:
            return "rebuilding from the same bytes gave a different answer or order (query %d)" % i
    return None


# ------------------------------------------------------------------------------------------------
# C16
# ------------------------------------------------------------------------------------------------

def gen_C16(rng, tier):
    n = 200 if tier == "quick" else 10500
    groups = []
    for _ in range(n):
        f = gen.gen_file(rng, big=rng.random() < 0.15)
        qs = gen.gen_intervals(rng, f, 12)
        if rng.random() < 0.3:
            # a chain with an empty extent (start == end on both sides, one record "0") still declares its contigs
            e = dict(score=1, tname=rng.choice(["emptyT", rng.choice(f)["tname"]]), tsize=rng.randint(0, 50), tstrand=rng.choice("+-"),
                     qname=rng.choice(["emptyQ", rng.choice(f)["qname"]]), qsize=rng.randint(0, 50), qstrand=rng.choice("+-"), id=77, blocks=[(0,)])
            for side in "tq":
                known = [c[side + "size"] for c in f if c[side + "name"] == e[side + "name"]]
                if known:
                    e[side + "size"] = known[0]
                p0 = rng.randint(0, e[side + "size"])
                e[side + "start"] = e[side + "end"] = p0
            f = list(f)
            f.insert(rng.randint(0, len(f)), e)
        if rng.random() < 0.3:
            # redeclare a contig with another size on one side (sometimes smaller, sometimes through an empty-extent chain)
            c = copy.deepcopy(rng.choice(f))
            side = rng.choice("tq")
            if rng.random() < 0.3:
                c.update(blocks=[(0,)], tstart=0, tend=0, qstart=0, qend=0)
            delta = rng.choice([1, 5, 1000])
            if rng.random() < 0.4 and c[side + "size"] - delta >= c[side + "end"]:
                delta = -delta
            c[side + "size"] += delta
            if rng.random() < 0.25:
                # the odd one out is a contig of size 0 (only an empty chain at position 0 can declare it): 0 is a size like any
                # other, not "not seen yet"
                declared = [x[side + "size"] for x in f if x[side + "name"] == c[side + "name"]]
                if all(d != 0 for d in declared):   # otherwise 0 would not be another size
                    c.update(blocks=[(0,)], tstart=0, tend=0, qstart=0, qend=0)
                    c[side + "size"] = 0
            if rng.random() < 0.5:
                c[("q" if side == "t" else "t") + "name"] += "_o"
            g = list(f)
            g.insert(rng.randint(0, len(g)), c)
            groups.append(group("conflict", "c16_conflict", [build_case(gen.render(g), qs)]))
        else:
            groups.append(group("dicts", "c16_dicts", [build_case(gen.render(f), qs)], params=file_params(f, qs)))
    return groups


@oracle("c16_conflict")
def o_c16_conflict(params, cases, outs):
    o = outs[0]
    if o.startswith("err "):
        return None
    return "a file declaring one contig with two sizes yielded: %s" % o[:160]


@oracle("c16_dicts")
def o_c16(params, cases, outs):
    f, qs = load_file(params)
    st, rd, qd, ans = split_build(outs[0])
    if st != "ok":
        return "a well-formed file was not accepted: %s" % outs[0][:200]
    er = {c["tname"]: c["tsize"] for c in f}
    eq = {c["qname"]: c["qsize"] for c in f}
    if rd != er:
        return "reference dictionary %s, headers declare %s" % (rd, er)
    if qd != eq:
        return "query dictionary %s, headers declare %s" % (qd, eq)
    for q, a in zip(qs, ans):
        got = parse_lift(a)
        if got is None:
            return "liftover of %s: %s" % (q, a)
        for (r, qq) in got:
            if r[0] not in rd or max(r[2], r[3]) > rd[r[0]]:
                return "reference coordinate of %s outside 0..size" % (r,)
            if qq[0] not in qd or max(qq[2], qq[3]) > qd[qq[0]]:
                return "query coordinate of %s outside 0..size" % (qq,)
    return None


# ------------------------------------------------------------------------------------------------
# C03
# ------------------------------------------------------------------------------------------------

def corruptions(rng, f, lines, owner):
    """yield (name, new lines); owner[i] = (chain index, 'h' | block index | None for blank)"""
    out = []
    data_idx = [i for i, o in enumerate(owner) if o and o[1] != "h"]
    hdr_idx = [i for i, o in enumerate(owner) if o and o[1] == "h"]

    def rep(i, s):
        return lines[:i] + [s] + lines[i + 1:]
    for i in rng.sample(data_idx, min(4, len(data_idx))):
        fs = lines[i].split("\t")
        j = rng.randrange(len(fs))
        k = rng.choice([1, 1, 2, 7, 1000])
        for d in (k, -k):
            v = int(fs[j]) + d
            if v >= 0:
                g = list(fs)
                g[j] = str(v)
                out.append(("data-field%d%+d" % (j, d), rep(i, "\t".join(g))))
        out.append(("data-2-fields", rep(i, "\t".join((fs + ["0"])[:2]))))
        out.append(("data-4-fields", rep(i, "\t".join(fs + ["0", "0", "0"][:4 - len(fs)] if len(fs) < 4 else fs + ["0"]))))
        out.append(("data-non-numeric", rep(i, "\t".join(["x"] + fs[1:]))))
        out.append(("data-out-of-range", rep(i, "\t".join([str(U64 + 1)] + fs[1:]))))
        # stray delimiters are extra (empty) fields, never padding
        out.append(("data-trailing-tab", rep(i, lines[i] + "\t")))
        out.append(("data-trailing-space", rep(i, lines[i] + " ")))
        out.append(("data-leading-tab", rep(i, "\t" + lines[i])))
        out.append(("data-trailing-tabs", rep(i, lines[i] + "\t\t")))
        out.append(("blank-inside", lines[:i] + [""] + lines[i:]))
        out.append(("junk-inside", lines[:i] + ["junk"] + lines[i:]))
        out.append(("header-inside", lines[:i] + [lines[hdr_idx[0]]] + lines[i:]))
    for i in rng.sample(hdr_idx, min(3, len(hdr_idx))):
        fs = lines[i].split(" ")
        c = f[owner[i][0]]
        for (j, nm) in ((5, "tstart"), (6, "tend"), (10, "qstart"), (11, "qend")):
            k = rng.choice([1, 1, 3, 50])
            for d in (k, -k):
                v = int(fs[j]) + d
                if v >= 0:
                    g = list(fs)
                    g[j] = str(v)
                    out.append(("hdr-%s%+d" % (nm, d), rep(i, " ".join(g))))
        g = list(fs); g[5], g[6] = str(c["tend"] + 1), str(c["tend"]); out.append(("hdr-start>end", rep(i, " ".join(g))))
        if c["tend"] > 0:
            g = list(fs); g[3] = str(c["tend"] - 1); out.append(("hdr-size<end", rep(i, " ".join(g))))
        if c["qend"] > 0:
            g = list(fs); g[8] = str(c["qend"] - 1); out.append(("hdr-qsize<qend", rep(i, " ".join(g))))
        # both declared ends short by the chain's last block: the records before it already land on both ends
        lastb = c["blocks"][-1][0]
        if lastb > 0 and len(c["blocks"]) > 1 and c["tend"] - lastb >= c["tstart"] and c["qend"] - lastb >= c["qstart"]:
            g = list(fs); g[6], g[11] = str(c["tend"] - lastb), str(c["qend"] - lastb)
            out.append(("hdr-both-ends-minus-last-block", rep(i, " ".join(g))))
        for kk in (1, 2):
            if c["tend"] - kk >= c["tstart"] and c["qend"] - kk >= c["qstart"]:
                g = list(fs); g[6], g[11] = str(c["tend"] - kk), str(c["qend"] - kk)
                out.append(("hdr-both-ends-%d" % -kk, rep(i, " ".join(g))))
        out.append(("hdr-trailing-space", rep(i, lines[i] + " ")))
        out.append(("hdr-trailing-tab", rep(i, lines[i] + "\t")))
        out.append(("hdr-leading-space", rep(i, " " + lines[i])))
        out.append(("hdr-12-fields", rep(i, " ".join(fs[:-1]))))
        out.append(("hdr-14-fields", rep(i, " ".join(fs + ["9"]))))
        g = list(fs); g[4] = "?"; out.append(("hdr-strand", rep(i, " ".join(g))))
        g = list(fs); g[rng.choice([1, 3, 5, 6, 8, 10, 11, 12])] = rng.choice(["x", "-1", "", str(U64 + 1), "1.5"]); out.append(("hdr-bad-number", rep(i, " ".join(g))))
        # terminating line removed / made non-terminating
        last = max(k for k, o in enumerate(owner) if o and o[0] == owner[i][0])
        out.append(("terminator-removed", lines[:last] + lines[last + 1:]))
        out.append(("terminator-nonterminating", rep(last, lines[last] + "\t0\t0")))
    out.append(("data-before-first-header", ["5"] + lines))
    out.append(("data-before-first-header-nt", ["5\t1\t1"] + lines))
    return out


def gen_C03(rng, tier):
    n = 90 if tier == "quick" else 4500
    groups = []
    for _ in range(n):
        f = gen.gen_file(rng, big=rng.random() < 0.1, max_chains=4)
        # avoid degenerate all-zero chains where removing a block is harmless
        lines, owner = [], []
        for ci, c in enumerate(f):
            lines.append(gen.header_line(c)); owner.append((ci, "h"))
            for bi, dl in enumerate(gen.data_lines(c)):
                lines.append(dl); owner.append((ci, bi))
            lines.append(""); owner.append(None)
        good = build_case(gen.render_lines(lines), [])
        groups.append(group("canonical", "c03_accept", [good]))
        # "every canonical well-formed file is accepted" - however it is terminated and however the bytes arrive: CRLF, no final
        # newline, one byte at a time, cut in two anywhere, cut in random pieces
        for _ in range(2):
            d2 = gen.render_lines(lines, eol=rng.choice(["\r\n", "\r\n", "\n"]), final_nl=rng.random() < 0.7)
            ch = gen.composition(rng, d2, rng.choice(["bytes", "two", "two", "rand"]))
            groups.append(group("canonical-crlf-chunked", "c03_accept", [build_case(d2, [], ch)]))
        for name, new in corruptions(rng, f, lines, owner):
            groups.append(group("corrupt:" + name.split("+")[0].split("-")[0] + ":" + name, "c03_refuse",
                                [build_case(gen.render_lines(new), [])], params={"what": name}))
    return groups


@oracle("c03_accept")
def o_c03_accept(params, cases, outs):
    return None if outs[0].startswith("ok ") else "a canonical well-formed file was refused: %s" % outs[0][:200]


@oracle("c03_refuse")
def o_c03_refuse(params, cases, outs):
    if outs[0].startswith("err "):
        return None
    return "a file corrupted by '%s' was not refused with an error: %s" % (params.get("what"), outs[0][:200])


# ------------------------------------------------------------------------------------------------
# C06
# ------------------------------------------------------------------------------------------------

def mutate_bytes(rng, data):
    b = bytearray(data)
    for _ in range(rng.choice([1, 1, 2, 3])):
        if not b:
            break
        m = rng.random()
        i = rng.randrange(len(b))
        if m < 0.3:
            b[i] = rng.choice(b"0123456789\t \n+-chain\xff\x80")
        elif m < 0.5:
            del b[i]
        elif m < 0.7:
            b.insert(i, rng.choice(b"0123456789\t \n"))
        elif m < 0.85:
            # replace a number by an extreme
            j = i
            while j < len(b) and chr(b[j]).isdigit():
                j += 1
            k = i
            while k > 0 and chr(b[k - 1]).isdigit():
                k -= 1
            if j > k:
                b[k:j] = rng.choice([b"0", b"1", str(U64).encode(), str(U64 + 1).encode(), str(2 ** 63).encode()])
        else:
            b[i:i] = rng.choice([b"\n\n", b"\r\n", b"\nchain 1 a 5 + 0 5 b 5 + 0 5 1\n", b"\n0\n", b"\n0\t0\t0\n"])
    return bytes(b)


def gen_C06(rng, tier):
    n = 260 if tier == "quick" else 15000
    groups = []
    for _ in range(n):
        r = rng.random()
        f = gen.gen_file(rng, big=rng.random() < 0.25, zero_blocks=rng.random() < 0.5, max_chains=4)
        qs = gen.gen_intervals(rng, f, 10) + [("a", "+", 0, 0), ("a", "-", U64, 0), ("a", "+", 0, U64)]
        for ctg in sorted({c["tname"] for c in f})[:2]:
            # extreme and zero-length intervals on contigs the machine knows
            qs += [(ctg, "+", U64, U64), (ctg, "-", U64, U64), (ctg, "+", 0, 0), (ctg, "-", 0, 0), (ctg, "+", U64 - 1, U64), (ctg, "-", U64, U64 - 1),
                   (ctg, "+", 0, U64), (ctg, "-", U64, 0)]
        if r < 0.3:
            data, fam = gen.render(f), "valid(+zero-blocks)"
        elif r < 0.6:
            data, fam = mutate_bytes(rng, gen.render(f)), "mutated"
        elif r < 0.7:
            c = copy.deepcopy(rng.choice(f)); c[rng.choice(["tsize", "qsize"])] += 3
            data, fam = gen.render(f + [c]), "size-redeclared"
        elif r < 0.85:
            kinds, texts = gen_line_seq(rng)
            data, fam = b"\n".join(texts) + b"\n", "grammar-random"
        else:
            data, fam = bytes(rng.choice(b"0123456789\t \nchain+-ab\xff") for _ in range(rng.randint(0, 120))), "byte-random"
        cases = [build_case(data, qs), "sections " + gen.src_tok(data), "lines " + gen.src_tok(data), "raw " + gen.src_tok(data)]
        groups.append(group(fam, "no_panic", cases))
    for _ in range(n):
        c, fam = gen_step_case(rng)
        groups.append(group("step-" + fam, "no_panic",
                            ["step %s %s" % (xtok(gen.header_line(c).encode("latin-1")), ",".join(rec_tok(b) for b in c["blocks"]))]))
    for _ in range(n // 2):
        groups.append(group("line", "no_panic", ["pline " + xtok(gen_line_text(rng))]))
    for L in (127, 128, 129, 8191, 8192, 8193, 20000):
        # long lines, ASCII and with multi-byte characters around the length
        for ch in ("n", "\u00e9", "\u20ac"):
            name = (ch * L)[:L]
            for line in ("chain 1 %s 9 + 0 9 b 9 + 0 9 1" % name, "chain 1 %s 9 + 0 9 b 9 + 0 9 x" % name, "x" + name, name + "\t1\t2"):
                for pad in ("", "a", "ab"):
                    data = (pad + line).encode("utf-8") + b"\n9\n"
                    groups.append(group("long-line", "no_panic", ["sections " + gen.src_tok(data), "pline " + xtok((pad + line).encode("utf-8")),
                                                                  build_case(data, [])]))
    return groups


# ------------------------------------------------------------------------------------------------
# C08
# ------------------------------------------------------------------------------------------------

def signature_queries(f):
    qs = []
    for c in f:
        for (r, _q) in gen.chain_pairs(c)[:6]:
            lo, hi = min(r[2], r[3]), max(r[2], r[3])
            a, b = max(lo - 1, 0), min(hi + 1, U64)
            qs.append((r[0], r[1], a, b) if r[1] == "+" else (r[0], r[1], b, a))
        lo = 0
        hi = c["tsize"]
        qs.append((c["tname"], c["tstrand"], lo, hi) if c["tstrand"] == "+" else (c["tname"], c["tstrand"], hi, lo))
    return qs[:40]


def gen_C08(rng, tier):
    n = 25 if tier == "quick" else 1200
    groups = []
    for _ in range(n):
        f = gen.gen_file(rng, max_chains=3, zero_blocks=rng.random() < 0.4)
        for c in f:
            if len(c["blocks"]) > 8:
                # keep files short so that every offset can be cut
                pass
        data = gen.render(f, blanks=rng.choice([0, 1]), final_nl=rng.random() < 0.7)
        if len(data) > 1200:
            continue
        qs = signature_queries(f)
        prefixes = [build_case(gen.render(f[:j], blanks=1), qs) for j in range(len(f) + 1)]
        offs = list(range(len(data) + 1))
        if tier == "quick" and len(offs) > 160:
            offs = sorted(rng.sample(offs, 160))
        cuts = [build_case(data[:k], qs) for k in offs]
        groups.append(group("truncation", "c08_trunc", prefixes + cuts, params={"nprefix": len(prefixes), "offs": offs}))
        # hard faults and interrupts at every fill_buf index of a random chunking
        chunks = gen.composition(rng, data, rng.choice(["rand", "rand", "bytes" if len(data) < 200 else "rand"]))
        cases, meta = [build_case(data, qs, chunks)], []
        for k in range(len(chunks) + 1):
            kind = rng.choice(["f", "f", "u", "r", "w"]) if k % 3 else ["f", "u", "r", "w"][(k // 3) % 4]
            cases.append(build_case(data, qs, chunks[:k] + [kind] + chunks[k:]))
            cases.append(build_case(data, qs, chunks[:k] + ["i"] + chunks[k:]))
        cases.append(build_case(data, qs, [x for c in chunks for x in ("i", c)] + ["i", "i"]))
        groups.append(group("faults", "c08_faults", cases))
    return groups


def same_machine(a, b):
    return a == b


@oracle("c08_trunc")
def o_c08_trunc(params, cases, outs):
    npre = params["nprefix"]
    pre = outs[:npre]
    for p in pre:
        if not p.startswith("ok "):
            return "a whole-chain prefix of a well-formed file was refused: %s" % p[:160]
    for k, o in zip(params["offs"], outs[npre:]):
        if o.startswith("err "):
            continue
        if "panic" in o:
            return "building from the file cut at byte %d panicked" % k
        if o not in pre:
            return "the file cut at byte %d builds a machine that answers unlike every whole-chain prefix: %s" % (k, o[:200])
    return None


@oracle("c08_faults")
def o_c08_faults(params, cases, outs):
    base = outs[0]
    i = 1
    while i + 1 < len(outs) - 1:
        hard, intr = outs[i], outs[i + 1]
        if hard != "err sections:io":
            # the file is well formed, so nothing but the failing read can be wrong with what the builder saw
            return "a hard read failure did not surface as an I/O error of the build: %s -> %s" % (cases[i][:120], hard[:160])
        if intr != base:
            return "an interrupted (retried) read changed the result: %s vs %s" % (intr[:120], base[:120])
        i += 2
    if outs[-1] != base:
        return "interrupts before every chunk changed the result"
    return None


# ------------------------------------------------------------------------------------------------
# C12
# ------------------------------------------------------------------------------------------------

import re

_BLANK = re.compile(r"blank:\d+")


def norm_blank(o):
    return _BLANK.sub("blank:N", o)


def gen_C12(rng, tier):
    n = 110 if tier == "quick" else 6000
    groups = []
    for _ in range(n):
        if rng.random() < 0.6:
            f = gen.gen_file(rng, max_chains=3)
            secs = [gen.chain_lines(c) for c in f]
            if rng.random() < 0.3 and secs:
                s = rng.choice(secs)
                s.insert(rng.randint(0, len(s)), rng.choice(["junk", "3\t4", "chain x"]))
            qs = gen.gen_intervals(rng, f, 6)
        else:
            kinds, texts = gen_line_seq(rng, maxlen=10)
            # split into 'sections' at blank lines so that padding only goes between them
            secs, cur = [], []
            for k, t in zip(kinds, texts):
                if k == "U":
                    continue
                if k == "B":
                    if cur:
                        secs.append(cur); cur = []
                else:
                    # a line ending in CR is not the same line under LF and under CRLF termination: keep CRs interior here
                    cur.append(t.rstrip(b"\r").decode("latin-1") or "x")
            if cur:
                secs.append(cur)
            qs = []
        base_lines = []
        for s in secs:
            base_lines += s + [""]
        core = base_lines[:-1] if base_lines else []   # same line sequence in every eol variant
        valid_family = bool(qs) or not secs
        variants = []
        ref = gen.render_lines(core, "\n", True)
        variants.append(("ref", ref, None))
        for eol in ("\n", "\r\n"):
            for fin in (True, False):
                if not fin and core and core[-1] == "":
                    continue  # an unterminated empty last line is no line at all
                variants.append(("eol", gen.render_lines(core, eol, fin), None))
        # padding: extra blank lines before, between and after sections (only where the grammar is between sections)
        padded = [""] * rng.randint(0, 2)
        if valid_family and not any(l in ("junk", "3\t4", "chain x") for l in core):
            for s in secs:
                padded += s + [""] * rng.randint(1, 3)
        else:
            padded += core
        variants.append(("pad", gen.render_lines(padded, rng.choice(["\n", "\r\n"]), True), None))
        # chunk schedules
        data = gen.render_lines(core, rng.choice(["\n", "\r\n"]), (rng.random() < 0.5) or bool(core and core[-1] == ""))
        for mode in ("bytes", "two", "two", "rand", "rand"):
            if mode == "bytes" and len(data) > 400:
                continue
            variants.append(("chunk", data, gen.composition(rng, data, mode)))
        if b"\r\n" in data:
            k = data.index(b"\r\n") + 1
            variants.append(("chunk", data, [data[:k], data[k:]]))
        cases, kinds_v = [], []
        for (kind, d, ch) in variants:
            cases += ["sections " + gen.src_tok(d, ch), build_case(d, qs, ch)]
            kinds_v.append(kind)
        groups.append(group("variants", "c12_variants", cases, params={"kinds": kinds_v}))
        if rng.random() < 0.15:
            # odd bytes at the very start of the stream (BOM, NUL, whitespace): every chunking must agree
            pre = rng.choice([b"\xef\xbb\xbf", b"\xef\xbb", b"\x00", b" ", b"\xff\xfe", b"\xef\xbb\xbf\n"])
            dd = pre + ref
            cs, ks = [], []
            for mode in ("one", "bytes", "two", "two", "rand"):
                if mode == "bytes" and len(dd) > 400:
                    continue
                chv = None if mode == "one" else gen.composition(rng, dd, mode)
                cs += ["sections " + gen.src_tok(dd, chv), build_case(dd, qs, chv)]
                ks.append("chunk")
            for k in (1, 2, 3, 4):
                cs += ["sections " + gen.src_tok(dd, [dd[:k], dd[k:]]), build_case(dd, qs, [dd[:k], dd[k:]])]
                ks.append("chunk")
            groups.append(group("odd-prefix", "c12_same", cs))
        # raw reads: byte counts and texts
        lines_txt = [l for l in base_lines]
        eol = rng.choice(["\n", "\r\n"])
        fin = rng.random() < 0.5
        d = gen.render_lines(lines_txt[:-1] if (lines_txt and not fin) else lines_txt, eol, fin)
        groups.append(group("raw", "c12_raw", ["raw " + gen.src_tok(d, gen.composition(rng, d, rng.choice(["one", "rand", "two"])))],
                            params={"data": d.hex()}))
        if rng.random() < 0.25:
            # lines with trailing / leading whitespace and interior CR: nothing but the terminator may be stripped
            ws = [rng.choice(["1 ", "1\t", " ", "\t", "7\t1\t2\t", "3\t0\t1 ", " 5", "chain 1 a 9 + 0 9 b 9 + 0 9 1 ", "se\rq 1", "\r", "x\r\ry", "9\r "])
                  for _ in range(rng.randint(1, 4))]
            for e in ("\n", "\r\n"):
                for fin in (True, False):
                    dl = gen.render_lines(ws, e, fin)
                    ch = gen.composition(rng, dl, rng.choice(["one", "two", "rand", "bytes"]))
                    groups.append(group("raw-whitespace", "c12_raw", ["raw " + gen.src_tok(dl, ch)], params={"data": dl.hex()}))
                    groups.append(group("variants-whitespace", "none", ["sections " + gen.src_tok(dl, ch), "lines " + gen.src_tok(dl, ch)]))
        if rng.random() < 0.08:
            L = rng.choice([8191, 8192, 8193, 16384, 40000])
            long_lines = [("chain 1 %s 9 + 0 9 b 9 + 0 9 1" % ("n" * L)), "9", "", "x" * L]
            for e in ("\n", "\r\n"):
                dl = gen.render_lines(long_lines, e, True)
                groups.append(group("raw-long-line", "c12_raw", ["raw " + gen.src_tok(dl, gen.composition(rng, dl, rng.choice(["one", "two", "rand"])))],
                                    params={"data": dl.hex()}))
                groups.append(group("variants-long-line", "none", ["sections " + gen.src_tok(dl), "lines " + gen.src_tok(dl)]))
    return groups


@oracle("c12_variants")
def o_c12(params, cases, outs):
    kinds = params["kinds"]
    ref_s, ref_b = outs[0], outs[1]
    for i, kind in enumerate(kinds):
        s, b = outs[2 * i], outs[2 * i + 1]
        if kind == "pad":
            if norm_blank(s) != norm_blank(ref_s) or norm_blank(b) != norm_blank(ref_b):
                return "blank padding changed a parsed section, error kind or machine: %s vs %s" % (s[:160], ref_s[:160])
        elif kind == "eol":
            if s != ref_s or b != ref_b:
                return "line endings / final newline changed the result: %s vs %s" % (s[:160], ref_s[:160])
        elif kind == "chunk":
            # compared with the unchunked run of the same bytes: the variant list puts it right after 'pad'
            pass
    # chunked variants share their bytes: all chunk variants must agree among themselves and with the eol variant of same bytes
    ch = [(outs[2 * i], outs[2 * i + 1]) for i, k in enumerate(kinds) if k == "chunk"]
    for c in ch[1:]:
        if c != ch[0]:
            return "the chunking of the underlying reader changed the result: %s vs %s" % (c[0][:120], ch[0][0][:120])
    if ch and (ch[0][0] != ref_s or ch[0][1] != ref_b):
        return "chunked reading differs from the reference parse: %s vs %s" % (ch[0][0][:160], ref_s[:160])
    return None


@oracle("c12_same")
def o_c12_same(params, cases, outs):
    for i in range(2, len(outs), 2):
        if outs[i] != outs[0] or outs[i + 1] != outs[1]:
            return "the chunking of the underlying reader changed the result: %s vs %s" % (outs[i][:120], outs[0][:120])
    return None


@oracle("c12_raw")
def o_c12_raw(params, cases, outs):
    data = bytes.fromhex(params["data"])
    items = outs[0].split(" ")
    if items[-1] != "end":
        return "raw reads did not end"
    pos = 0
    for it in items[:-1]:
        if it.startswith("err"):
            return None  # invalid UTF-8 lines are outside this oracle
        n, x = it.split(":")
        n = int(n)
        text = bytes.fromhex(x[1:])
        chunk = data[pos:pos + n]
        if len(chunk) != n:
            return "raw read reports %d bytes but only %d were left" % (n, len(chunk))
        if chunk.endswith(b"\r\n"):
            body = chunk[:-2]
        elif chunk.endswith(b"\n"):
            body = chunk[:-1]
        else:
            body = chunk
        if body != text or b"\n" in body:
            return "raw read returned %r for the bytes %r" % (text, chunk)
        pos += n
    if pos != len(data):
        return "raw reads consumed %d of %d bytes" % (pos, len(data))
    return None


# ------------------------------------------------------------------------------------------------
# C13
# ------------------------------------------------------------------------------------------------

def canon_num(b):
    v = py_u64(b)
    return None if v is None else str(v).encode()


def canon_header(line):
    fs = line.split(b" ")
    if len(fs) != 13 or fs[0] != b"chain":
        return None
    out = list(fs)
    for j in (1, 3, 5, 6, 8, 10, 11, 12):
        c = canon_num(fs[j])
        if c is None:
            return None
        out[j] = c
    if fs[4] not in (b"+", b"-") or fs[9] not in (b"+", b"-"):
        return None
    if not (int(out[5]) <= int(out[6]) <= int(out[3]) and int(out[10]) <= int(out[11]) <= int(out[8])):
        return None
    return b" ".join(out)


def canon_data(line):
    fs = line.split(b"\t")
    if len(fs) not in (1, 3):
        return None
    out = [canon_num(x) for x in fs]
    if any(x is None for x in out):
        return None
    return b"\t".join(out)


def gen_C13(rng, tier):
    n = 900 if tier == "quick" else 60000
    groups = []
    for _ in range(n):
        r = rng.random()
        if r < 0.45:
            line = gen_header_text(rng, corrupt=0.15)
            # non-canonical spellings and odd names
            fs = line.split(b" ")
            if len(fs) == 13 and rng.random() < 0.6:
                for j in rng.sample([1, 3, 5, 6, 8, 10, 11, 12], rng.randint(1, 3)):
                    fs[j] = rng.choice([b"+", b"0", b"00", b"+0"]) + fs[j]
                if rng.random() < 0.3:
                    fs[2] = rng.choice([b"", b"chr\t1", b"\xc3\xa9", b"chain", b"a:b", b"+"])
                line = b" ".join(fs)
            canon = canon_header(line)
        elif r < 0.9:
            from props import gen_data_text
            line = gen_data_text(rng, corrupt=0.15)
            if rng.random() < 0.5:
                line = b"\t".join(rng.choice([b"", b"+", b"0", b"000"]) + x for x in line.split(b"\t"))
            canon = canon_data(line)
        else:
            line, canon = b"", b""
        if line == b"":
            canon = b""
        try:
            line.decode("utf-8")
        except UnicodeDecodeError:
            continue
        cases = ["pline " + xtok(line)]
        if canon is not None:
            cases.append("pline " + xtok(canon))
        groups.append(group("accepted" if canon is not None else "rejected", "c13_line", cases,
                            params={"canon": canon.hex() if canon is not None else None}, nontrivial=canon is not None))
    nf = 60 if tier == "quick" else 3000
    for _ in range(nf):
        f = gen.gen_file(rng, big=rng.random() < 0.15)
        qs = gen.gen_intervals(rng, f, 10)
        lines = gen.file_lines(f, blanks=rng.choice([1, 2]))
        # a non-canonical spelling of the same file
        odd = []
        for l in lines:
            if l and rng.random() < 0.5:
                sep = " " if l.startswith("chain") else "\t"
                fs = l.split(sep)
                j = rng.randrange(len(fs))
                if fs[j].isdigit():
                    fs[j] = rng.choice(["+", "0", "00"]) + fs[j]
                l = sep.join(fs)
            odd.append(l)
        d_odd, d_can = gen.render_lines(odd), gen.render(f, blanks=1)
        groups.append(group("file", "c13_file", ["sections " + gen.src_tok(d_odd), "sections " + gen.src_tok(d_can),
                                                 build_case(d_odd, qs), build_case(d_can, qs)]))
        # the re-serialised bytes must be accepted identically however the reader chunks them
        ch = gen.composition(rng, d_can, "bytes" if len(d_can) < 600 else "rand")
        groups.append(group("file-chunked", "c13_file", ["sections " + gen.src_tok(d_can, ch), "sections " + gen.src_tok(d_can),
                                                         build_case(d_can, qs, ch), build_case(d_can, qs)]))
    return groups


@oracle("c13_line")
def o_c13_line(params, cases, outs):
    canon = params["canon"]
    if canon is None:
        return None if outs[0].startswith("err") else "a line outside the accepted syntax was accepted: %s" % outs[0][:160]
    canon = bytes.fromhex(canon)
    a, b = outs[0], outs[1]
    if a.startswith("err") or b.startswith("err") or "panic" in a or "panic" in b:
        return "an acceptable line was rejected (or printing panicked): %s / %s" % (a[:120], b[:120])
    if canon == b"":
        return None if a == "empty" and b == "empty" else "empty line: %s" % a
    # kind:fields:xPRINTED
    ra, pa = a.rsplit(":", 1)
    rb_, pb = b.rsplit(":", 1)
    if ra != rb_:
        return "the printed text parses back to a different record: %s vs %s" % (ra[:160], rb_[:160])
    if pa != xtok(canon) or pb != xtok(canon):
        return "canonical text does not print back byte-identically: printed %s, canonical %s" % (pa, xtok(canon))
    return None


@oracle("c13_file")
def o_c13_file(params, cases, outs):
    if outs[0] != outs[1]:
        return "re-serialising the sections changed them: %s vs %s" % (outs[0][:160], outs[1][:160])
    if outs[2] != outs[3] or not outs[2].startswith("ok "):
        return "re-serialised file builds a different machine: %s vs %s" % (outs[2][:160], outs[3][:160])
    return None


# ------------------------------------------------------------------------------------------------
# C17
# ------------------------------------------------------------------------------------------------

def gen_C17(rng, tier):
    n = 700 if tier == "quick" else 45000
    groups = []
    for _ in range(n):
        if rng.random() < 0.6:
            f = gen.gen_file(rng, max_chains=3)
            lines = [l.encode() for l in gen.file_lines(f, blanks=rng.choice([0, 1, 2]))]
            if rng.random() < 0.3 and lines:
                lines.insert(rng.randrange(len(lines)), rng.choice([b"junk", b"", b"7"]))
        else:
            kinds, lines = gen_line_seq(rng, maxlen=10)
        fam = "history"
        if rng.random() < 0.06 and lines:
            # one very long line (buffer-size boundaries): a header with a long contig name, or a long junk line
            L = rng.choice([4090, 8180, 8191, 8192, 8193, 10000, 16384, 70000])
            k = rng.randrange(len(lines))
            if lines[k].startswith(b"chain "):
                fs = lines[k].split(b" ")
                if len(fs) == 13:
                    fs[2] = b"n" * L
                    lines[k] = b" ".join(fs)
            else:
                lines[k] = b"9" * L if rng.random() < 0.5 else lines[k]
            fam = "history-long-line"
        eol = rng.choice([b"\n", b"\r\n"])
        fin = rng.random() < 0.6 or (lines and lines[-1] == b"")
        data = eol.join(lines) + (eol if (fin and lines) else b"")
        ops = "".join(rng.choice("rplssssn") for _ in range(rng.randint(1, 14)))
        chunks = None
        if rng.random() < 0.35 and data:
            # the same history over a chunked (and interrupted) reader: the cursor is in bytes, so nothing may change
            chunks = gen.composition(rng, data, rng.choice(["two", "rand", "bytes" if len(data) < 300 else "rand"]))
            if rng.random() < 0.5:
                k = rng.randint(0, len(chunks))
                chunks = chunks[:k] + ["i"] + chunks[k:]
            fam += "-chunked"
        groups.append(group(fam, "c17_ops", ["ops %s %s" % (gen.src_tok(data, chunks), ops)],
                            params={"data": data.hex(), "ops": ops}))
    return groups


@oracle("c17_ops")
def o_c17(params, cases, outs):
    data = bytes.fromhex(params["data"])
    ops = params["ops"]
    o = outs[0]
    if "panic" in o:
        return "a reader operation panicked"
    items = o.split(" ")
    # line boundaries
    bounds = [0]
    p = 0
    while p < len(data):
        q = data.find(b"\n", p)
        p = len(data) if q < 0 else q + 1
        bounds.append(p)
    nxt = {bounds[i]: bounds[i + 1] for i in range(len(bounds) - 1)}
    pos = 0
    if len(items) != len(ops):
        return "expected one result per operation, got %d for %d" % (len(items), len(ops))
    for op, it in zip(ops, items):
        if op == "n":
            continue
        body, at = it.rsplit("@", 1)
        at = int(at)
        if at not in nxt and at != len(data):
            return "after '%s' the cursor (%d) is not at a line boundary" % (op, at)
        if at < pos:
            return "the cursor moved backwards"
        if op in "rpl":
            want = nxt.get(pos, pos)
            if at != want:
                return "a single-line read moved the cursor from %d to %d (next line ends at %d)" % (pos, at, want)
            if op == "r" and not body.startswith("err") and body != "eof":
                n, x = body.split(":")
                chunk = data[pos:at]
                text = bytes.fromhex(x[1:])
                want_text = chunk[:-2] if chunk.endswith(b"\r\n") else (chunk[:-1] if chunk.endswith(b"\n") else chunk)
                if int(n) != len(chunk) or want_text != text:
                    return "raw read returned %r for %r" % (text, chunk)
        else:
            if body.startswith("S("):
                nrec = len(body[2:-1].split(";")[1].split(","))
                # lines consumed: blanks*, header, nrec data lines, ending exactly at the terminating line
                consumed = []
                p2 = pos
                while p2 < at:
                    consumed.append(data[p2:nxt[p2]].rstrip(b"\n").rstrip(b"\r") if data[p2:nxt[p2]].endswith(b"\n") else data[p2:nxt[p2]])
                    p2 = nxt[p2]
                nonblank = [c for c in consumed if c != b""]
                if len(nonblank) != nrec + 1 or consumed[-1] == b"" or not consumed[len(consumed) - nrec - 1].startswith(b"chain"):
                    return "yielding a section consumed %r, not exactly blank lines + header + its %d records" % (consumed, nrec)
        pos = at
    return None


# ------------------------------------------------------------------------------------------------
# C18
# ------------------------------------------------------------------------------------------------

def gen_C18(rng, tier):
    n = 60 if tier == "quick" else 1800
    groups = []
    for _ in range(n):
        f = gen.gen_file(rng, max_chains=5)
        qs = gen.gen_intervals(rng, f, 30)
        data = gen.render(f)
        nthreads = rng.choice([2, 4, 8, 16])
        groups.append(group("threads-%d" % nthreads, "c18_threads",
                            ["threads %s %s %d" % (gen.src_tok(data), ",".join(ival_tok(q) for q in qs), nthreads)]))
    return groups


def c18_model_case(case):
    t = case.split(" ")
    if t[0] == "threads":
        return "build %s %s" % (t[1], t[2])
    return case


@oracle("c18_threads")
def o_c18(params, cases, outs):
    o = outs[0]
    if o.startswith("ok "):
        return None
    return "concurrent liftovers on a shared machine: %s" % o[:200]


# ------------------------------------------------------------------------------------------------
# shrinking of failing file-based groups (a minimal replay: one interval, as few chains as possible)
# ------------------------------------------------------------------------------------------------

SHRINKABLE = {"c01_sound", "c02_complete", "c16_dicts"}


def shrink_file_group(g, fails):
    """g: a failing group whose params hold {file, queries}; fails(group) -> message or None (runs the implementation).
    Returns a smaller failing group (or g)."""
    if g["oracle"] not in SHRINKABLE or "file" not in g["params"]:
        return g
    f, qs = load_file(copy.deepcopy(g["params"]))

    def mk(f2, q2):
        return group(g["family"] + ":shrunk", g["oracle"], [build_case(gen.render(f2), q2)], params=file_params(f2, q2))
    best = g
    # 1. a single interval
    for q in qs:
        cand = mk(f, [q])
        if fails(cand):
            best, qs = cand, [q]
            break
    # 2. drop chains while it still fails
    changed = True
    while changed and len(f) > 1:
        changed = False
        for i in range(len(f)):
            f2 = f[:i] + f[i + 1:]
            cand = mk(f2, qs)
            if fails(cand):
                f, best, changed = f2, cand, True
                break
    # 3. drop leading/trailing blocks of single chains when the chain stays well formed
    for ci in range(len(f)):
        c = f[ci]
        while len(c["blocks"]) > 1:
            b0 = c["blocks"][0]
            c2 = dict(c)
            c2["blocks"] = c["blocks"][1:]
            c2["tstart"] = c["tstart"] + b0[0] + b0[1]
            c2["qstart"] = c["qstart"] + b0[0] + b0[2]
            f2 = f[:ci] + [c2] + f[ci + 1:]
            cand = mk(f2, qs)
            if gen.wf_chain(c2) and fails(cand):
                f, c, best = f2, c2, cand
            else:
                break
    return best
