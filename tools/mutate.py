#!/usr/bin/env python3
"""Development aid (not a registered check): a mechanical mutation campaign over /repo's library sources, to find places where
a small change survives both the crate's 52 tests and all 18 quick checks.  A survivor is either an equivalent mutant (no
property is violated) or a gap in the generators; each needs a human look, so the result is a work list, not a verdict.

  mutate.py gen <worktree> <outdir>     enumerate single-token mutants of src/**/*.rs (outside tests, Display impls, src/bin),
                                        keep those that compile and pass `cargo test --lib --offline` in the scratch worktree,
                                        write them as <outdir>/mNNNN.diff (+ index.json)
  mutate.py run <outdir> [ids...]       apply each kept mutant to /repo in turn, run all 18 quick checks in parallel
                                        (VERIF_NO_BOOST=1), restore /repo, record who reports it in <outdir>/results.json

Never run `run` while anything else uses /repo."""
import concurrent.futures
import json
import os
import re
import subprocess
import sys

ROOT = os.path.dirname(os.path.dirname(os.path.abspath(__file__)))
ALL = ["C%02d" % i for i in range(1, 19)]

OPS = [
    (r"<=", "<"), (r"(?<![<=>!-])<(?![<=])(?=\s)", "<="), (r">=", ">"), (r"(?<=\s)>(?![>=])(?=\s)", ">="),
    (r"==", "!="), (r"!=", "=="),
    (r"(?<=\s)\+(?=\s)", "-"), (r"(?<=\s)-(?=\s)", "+"), (r"\+= 1", "+= 2"), (r"\+= 1", "+= 0"),
    (r"&&", "||"), (r"\|\|", "&&"),
    (r"\bchecked_add\b", "checked_sub"), (r"\bchecked_sub\b", "checked_add"),
    (r"\bchecked_add\b", "wrapping_add"), (r"\bchecked_sub\b", "wrapping_sub"),
    (r"\bmove_forward\b", "move_backward"), (r"\bmove_backward\b", "move_forward"),
    (r"\bStrand::Positive\b", "Strand::Negative"), (r"\bStrand::Negative\b", "Strand::Positive"),
    (r"\.reference\(\)", ".query()"), (r"\.query\(\)", ".reference()"),
    (r"\.start\(\)", ".end()"), (r"\.end\(\)", ".start()"),
    (r"\breference_sequence\(\)", "query_sequence()"), (r"\bquery_sequence\(\)", "reference_sequence()"),
    (r"\balignment_start\b", "alignment_end"), (r"\balignment_end\b", "alignment_start"),
    (r"\bdt\(\)", "dq()"), (r"\bdq\(\)", "dt()"),
    (r"\bcontinue;", "break;"), (r"\bbreak;", "continue;"),
    (r"\btrue\b", "false"), (r"\bfalse\b", "true"),
    (r"(?<![\w.])0(?![\w.])", "1"), (r"(?<![\w.])1(?![\w.])", "0"), (r"(?<![\w.])1(?![\w.])", "2"),
    (r"\.is_some\(\)", ".is_none()"), (r"\.is_none\(\)", ".is_some()"),
    (r"\.pop\(\);", ";"), (r"\bmin\b", "max"), (r"\bmax\b", "min"),
    (r"\bNonTerminating\b", "Terminating"), (r"(?<!Non)\bTerminating\b", "NonTerminating"),
    (r"\bInBetweenSections\b", "ReadingSection"), (r"\bReadingSection\b", "InBetweenSections"),
    (r"!self\.", "self."), (r"!(?=[a-z_]+\.)", ""),
    (r"\bstop\b", "start"), (r"(?<![_.\w])start(?![_\w(])", "stop"),
    # second set: off-by-one on values read from records and coordinates, negated conditions, dropped statements and adaptors
    (r"\.get\(\)(?=;)", ".get() + 1"), (r"\.get\(\)(?=;)", ".get().saturating_sub(1)"),
    (r"chunk\.size\(\)", "(chunk.size() + 1)"), (r"chunk\.size\(\)", "chunk.size().saturating_sub(1)"),
    (r"\bif (?!let)([^{]+) \{$", None), (r"^\s*[a-z_.]+(\.[a-z_]+)*\([^;]*\);$", ""), (r"^\s*self\.[a-z_]+ [+-]?= [^;]+;$", ""),
    (r"^\s*\.filter\(.*\)$", ""), (r"\.clamp\(interval\.clone\(\)\)", ".clamp(interval.clone().reverse_complement())"),
    (r"Some\(c\) => c,", "Some(c) if c.size() > 0 => c, Some(c) => c,"),
]


def sh(cmd, **kw):
    return subprocess.run(cmd, shell=True, stdout=subprocess.PIPE, stderr=subprocess.STDOUT, text=True, **kw)


def code_lines(path):
    """(line number, text) of lines that are code: outside `mod tests`, outside fmt impls, not comments / doc / attributes"""
    out = []
    txt = open(path).read().split("\n")
    in_tests = False
    fmt_depth = None
    depth = 0
    for i, l in enumerate(txt):
        s = l.strip()
        if "#[cfg(test)]" in l:
            in_tests = True
        opens, closes = l.count("{"), l.count("}")
        if fmt_depth is None and re.search(r"fn fmt\(", l):
            fmt_depth = depth
        depth += opens - closes
        in_fmt = fmt_depth is not None
        if fmt_depth is not None and depth <= fmt_depth and closes:
            fmt_depth = None
        if in_tests or in_fmt or s.startswith("//") or s.startswith("#[") or s.startswith("use ") or not s:
            continue
        if re.search(r"write!\(|warn!\(|debug!\(|info!\(|trace!\(|String::from\(\"", l):
            continue
        out.append((i, l))
    return out


def gen(wt, outdir):
    os.makedirs(outdir, exist_ok=True)
    env = dict(os.environ, CARGO_NET_OFFLINE="true", CARGO_TARGET_DIR=os.path.join(wt, "target"))
    files = []
    for base, _d, names in os.walk(os.path.join(wt, "src")):
        if "/src/bin" in base:
            continue
        files += [os.path.join(base, n) for n in names if n.endswith(".rs")]
    cands = []
    for f in sorted(files):
        for (i, l) in code_lines(f):
            code = l.split("//")[0]
            for (pat, repl) in OPS:
                for m in re.finditer(pat, code):
                    # not inside a string literal
                    if code[:m.start()].count('"') % 2 == 1:
                        continue
                    if repl is None:   # negate the condition of an `if`
                        new = l[:m.start()] + "if !(" + m.group(1) + ") {" + l[m.end():]
                    else:
                        new = l[:m.start()] + repl + l[m.end():]
                    if new == l:
                        continue
                    cands.append((f, i, l, new, "%s -> %s" % (m.group(0).strip()[:40], repl if repl is not None else "negated")))
    print(len(cands), "candidate mutants", flush=True)
    sh("git checkout -q -- .", cwd=wt)
    kept = []
    idx = {}
    for n, (f, i, old, new, what) in enumerate(cands):
        txt = open(f).read().split("\n")
        assert txt[i] == old
        txt[i] = new
        open(f, "w").write("\n".join(txt))
        r = sh("timeout 300 cargo test --lib --offline -q 2>&1 | tail -5", cwd=wt, env=env)
        ok = "test result: ok" in r.stdout
        if ok:
            d = sh("git diff -- src", cwd=wt).stdout
            name = "m%04d" % (n + int(os.environ.get("MUT_OFFSET", "0")))
            open(os.path.join(outdir, name + ".diff"), "w").write(d)
            idx[name] = {"file": os.path.relpath(f, wt), "line": i + 1, "what": what, "old": old.strip(), "new": new.strip()}
            kept.append(name)
        sh("git checkout -q -- .", cwd=wt)
        if n % 20 == 0:
            print(n, "/", len(cands), "kept", len(kept), flush=True)
            json.dump(idx, open(os.path.join(outdir, "index.json"), "w"), indent=1)
    json.dump(idx, open(os.path.join(outdir, "index.json"), "w"), indent=1)
    print("kept", len(kept), "of", len(cands))


def run(outdir, ids):
    idx = json.load(open(os.path.join(outdir, "index.json")))
    resf = os.path.join(outdir, "results.json")
    res = json.load(open(resf)) if os.path.exists(resf) else {}
    assert sh("git -C /repo status --porcelain --untracked-files=no").stdout.strip() == "", "/repo has local changes"
    env = dict(os.environ, VERIF_NO_BOOST="1")

    def one(p):
        c = sh("./check %s --tier quick" % p, cwd=ROOT, env=env)
        v = [l for l in c.stdout.split("\n") if l.startswith("VIOLATION")]
        return p, (c.returncode != 0 or bool(v)), (v[:1] or [""])[0]
    for name in (ids or sorted(idx)):
        if name in res and not ids:
            continue
        r = sh("git -C /repo apply %s" % os.path.join(outdir, name + ".diff"))
        if r.returncode != 0:
            res[name] = {"error": r.stdout[-200:]}
            continue
        try:
            with concurrent.futures.ThreadPoolExecutor(max_workers=6) as ex:
                outs = list(ex.map(one, ALL))
            caught = [p for p, bad, _ in outs if bad]
            nf = [p for p, bad, line in outs if bad and "no-failing-input-found" in line]
            res[name] = {"caught_by": caught, "only_unshown": sorted(set(caught)) == sorted(set(nf)) and bool(caught)}
            print(name, idx[name]["file"], idx[name]["line"], idx[name]["what"], "->", caught or "SURVIVED", flush=True)
        finally:
            sh("git -C /repo checkout -- .")
        json.dump(res, open(resf, "w"), indent=1, sort_keys=True)
    assert sh("git -C /repo status --porcelain --untracked-files=no").stdout.strip() == ""


if __name__ == "__main__":
    if sys.argv[1] == "gen":
        gen(sys.argv[2], sys.argv[3])
    else:
        run(sys.argv[2], sys.argv[3:])
