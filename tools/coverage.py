#!/usr/bin/env python3
"""Development aid (not a registered check): which lines of /repo/src do the generated cases of all 18 checks reach?

Builds the harness with `-C instrument-coverage` (nightly toolchain: it ships llvm-profdata / llvm-cov) in a scratch
directory outside /verif and /repo, replays the cases every check generates (seed 0, given tier), and prints the lines of
/repo/src/**/*.rs (src/bin excluded) that no case executes.  A line that is never executed is a place where a change could
hide from the correspondence check; the list is the to-do list for the generators.

usage: coverage.py [--tier quick|thorough] [--keep]     (scratch: /var/tmp/cf-cov, removed at the end unless --keep)"""
import glob
import json
import os
import random
import shutil
import subprocess
import sys

HERE = os.path.dirname(os.path.abspath(__file__))
ROOT = os.path.dirname(HERE)
sys.path.insert(0, HERE)
import registry  # noqa: E402

SCR = "/var/tmp/cf-cov"
TC = os.path.expanduser("~/.rustup/toolchains/nightly-x86_64-unknown-linux-gnu")
BIN = glob.glob(TC + "/lib/rustlib/*/bin")[0]


def sh(cmd, **kw):
    return subprocess.run(cmd, shell=True, stdout=subprocess.PIPE, stderr=subprocess.STDOUT, text=True, **kw)


def main():
    tier = "thorough" if "thorough" in sys.argv else "quick"
    shutil.rmtree(SCR, ignore_errors=True)
    os.makedirs(SCR)
    # a copy of the harness with its own target directory
    shutil.copytree(os.path.join(ROOT, "harness"), SCR + "/harness", ignore=shutil.ignore_patterns("target"))
    src_root = "/repo"
    if "--head" in sys.argv:   # measure the committed tree (e.g. while something else is patching the working tree)
        os.makedirs(SCR + "/repo")
        sh("git -C /repo archive HEAD | tar -x -C %s/repo" % SCR)
        src_root = SCR + "/repo"
        ct = SCR + "/harness/Cargo.toml"
        txt = open(ct).read().replace('path = "/repo"', 'path = "%s"' % src_root)
        open(ct, "w").write(txt)
    cfg = SCR + "/harness/.cargo/config.toml"
    open(cfg, "w").write('[net]\noffline = true\n[build]\ntarget-dir = "%s/target"\n' % SCR)
    env = dict(os.environ, RUSTFLAGS="-C instrument-coverage", CARGO_NET_OFFLINE="true", RUSTUP_TOOLCHAIN="nightly")
    r = sh("cargo build --offline", cwd=SCR + "/harness", env=env)
    if r.returncode != 0:
        print(r.stdout[-3000:])
        return 2
    exe = SCR + "/target/debug/cf-harness"
    n = 0
    for pid in sorted(registry.PROPS):
        spec = registry.PROPS[pid]
        rng = random.Random("%s-%d" % (pid, 0))
        groups = spec["gen"](rng, tier)
        cdir = os.path.join(ROOT, "corpus", pid)
        for f in sorted(glob.glob(cdir + "/*.json")):
            j = json.load(open(f))
            groups += j.get("groups") or ([j["group"]] if "group" in j else [])
        cases = sorted({c for g in groups for c in g["cases"]})
        n += len(cases)
        data = ("\n".join(cases) + "\n").encode("ascii")
        shard = 2000
        for k in range(0, len(cases), shard):
            part = ("\n".join(cases[k:k + shard]) + "\n").encode("ascii")
            subprocess.run([exe], input=part, stdout=subprocess.DEVNULL, stderr=subprocess.DEVNULL,
                           env=dict(os.environ, LLVM_PROFILE_FILE="%s/prof/%s-%d.profraw" % (SCR, pid, k)))
        print(pid, len(cases), "cases", flush=True)
    r = sh("%s/llvm-profdata merge -sparse %s/prof/*.profraw -o %s/all.profdata" % (BIN, SCR, SCR))
    if r.returncode != 0:
        print(r.stdout)
        return 2
    srcs = [p for p in glob.glob(src_root + "/src/**/*.rs", recursive=True) if "/src/bin/" not in p]
    r = sh("%s/llvm-cov show %s -instr-profile=%s/all.profdata --show-line-counts-or-regions=false %s" % (BIN, exe, SCR, " ".join(srcs)))
    out = r.stdout
    cur, in_tests, missed, total = None, False, {}, {}
    for line in out.split("\n"):
        if line.startswith(src_root + "/src/") and line.rstrip().endswith(":"):
            cur, in_tests = line.rstrip()[:-1], False
            continue
        parts = line.split("|", 2)
        if cur is None or len(parts) < 3:
            continue
        ln, cnt, text = parts[0].strip(), parts[1].strip(), parts[2]
        if "mod tests" in text or "#[cfg(test)]" in text:
            in_tests = True
        if in_tests or not ln.isdigit() or cnt == "":
            continue
        total[cur] = total.get(cur, 0) + 1
        if cnt == "0":
            missed.setdefault(cur, []).append((int(ln), text.rstrip()))
    print("\n%d cases in all; executable lines outside #[cfg(test)]: %d, never executed: %d" %
          (n, sum(total.values()), sum(len(v) for v in missed.values())))
    for f in sorted(missed):
        print("\n== %s  (%d of %d lines never executed)" % (f, len(missed[f]), total[f]))
        for ln, text in missed[f]:
            print("  %5d | %s" % (ln, text))
    if "--keep" not in sys.argv:
        shutil.rmtree(SCR, ignore_errors=True)
    return 0


if __name__ == "__main__":
    sys.exit(main())
