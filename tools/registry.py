"""Registry of the registered properties: pinned-theorem files, build profiles, generator, rule text."""
import props
from props import *  # noqa: F401,F403
import props2
from props2 import *  # noqa: F401,F403

# ------------------------------------------------------------------------------------------------
# registry (properties of props.py)
# ------------------------------------------------------------------------------------------------

PROPS = {
    "C04": dict(props=["Props/C04.v"], profiles=["debug"], gen=gen_C04,
                rule="sections built through the public section builder from a generated header (all four strand pairs; extents at "
                     "u64::MAX, 2^63 in a quarter of the cases) and a record list: adding up (45%), off by +-k on either side or in a "
                     "record (30%), one value that overflows / underflows (15%), terminating records in odd places (10%); zero sizes in "
                     "30%. Both stepthrough() and stepthrough_with_data() are drained and must agree. Thorough tier (and the quick tier on a changed "
                     "tree) adds a completely enumerated small scope: 1-3 records, sizes {0,1,2}, gaps {0,1}^2, 4 strand pairs, starts {0,1}^2, "
                     "declared extents exact or off by one (37 456 sections). All cases non-trivial; "
                     "distinct = distinct case lines."),
    "C05": dict(props=["Props/C05.v"], profiles=["debug"], gen=gen_C05,
                rule="byte streams made of lines over {blank, valid header, non-terminating data, terminating data, junk, invalid UTF-8}: "
                     "60% grammatical skeletons with 0-2 point mutations, 40% uniformly random strings, length 0..12+; sections() drained "
                     "to exhaustion (cap 60 calls). The thorough tier adds every string over the five-letter alphabet up to length 6. "
                     "Non-trivial = at least 2 lines; distinct = distinct case lines."),
    "C07": dict(props=["Props/C07.v"], profiles=["debug"], gen=gen_C07,
                rule="the C05 line streams (half of them extended to end inside a section) drained through sections() and lines(); the "
                     "C04 sections (adding up, off by k, overflowing, odd kinds) drained through both step-throughs; every drain is capped at "
                     "60 calls, far above lines+1 / records+1. Non-trivial = at least 2 lines / any section; distinct = distinct case lines."),
    "C14": dict(props=["Props/C14.v"], profiles=["debug", "release"], gen=gen_C14,
                rule="sequence constructor calls on (name,size,strand,start,end) strings drawn from valid numbers (incl. 0, u64::MAX, "
                     "leading zeros, '+'), invalid spellings and values around start<=end<=size; every (size,dt,dq,kind) shape of the record "
                     "constructor; header and data lines, valid and corrupted field-wise; run in debug and release. Thorough tier adds every "
                     "(size,strand,start,end) of a window of 6 values at 0 and at u64::MAX-5. All generated cases count "
                     "as non-trivial; distinct = distinct case lines."),
    "C15": dict(props=["Props/C15.v"], profiles=["debug"], gen=gen_C15,
                rule="clamp/liftover/try_new calls on generated pairs: positions from {0..3, u64::MAX-3..u64::MAX} "
                     "(45%), 0..40 (40%), uniform u64 (15%); lengths 0,1,2,3,small,huge; all four strand pairs; clamp "
                     "intervals drawn around the reference ends. Thorough tier adds a completely enumerated small scope at both ends of "
                     "the u64 range (every equal-length pair in a window of 5 x every coordinate and every clamp interval of the window, "
                     "17 600 calls). A case is non-trivial when the clamp interval meets the "
                     "reference interval on the same contig and strand / the lifted coordinate lies inside / the lengths differ; "
                     "distinct = distinct case lines."),
}


LIFT_RULE = ("well-formed chain files from the structured generator (1-6 chains; 1-3 contigs per side, names sometimes shared "
             "between the sides; the four strand combinations; block shapes one / 2-5 / 6-40 / one very long among many short; gaps "
             "(0,x) (x,0) (x,y) (0,0); non-zero starts and tails; duplicates; 10-15% with extents at 2^32, 2^63, u64::MAX) and "
             "intervals over the boundary set {0, 1, size, size+-1, every block start/end +-1, u64::MAX} plus random ones, both strands, "
             "unknown contigs, zero-length, past the contig end. ")

PROPS.update({
    "C01": dict(props=["Props/C01.v"], profiles=["debug"], gen=props2.gen_C01,
                rule=LIFT_RULE + "One case = one file with 24 intervals; zero-length blocks in 20% of the files. Thorough adds a completely "
                     "enumerated small scope: one chain, four strand pairs, 1-3 blocks of size 0..2, five gap shapes, offsets 0/1, every interval "
                     "[a,b) with 0<=a<=b<=size+1 on both strands. Non-trivial = all; distinct = distinct case lines."),
    "C02": dict(props=["Props/C02.v"], profiles=["debug"], gen=props2.gen_C02,
                rule=LIFT_RULE + "One case = one file (no zero-length blocks) with 24 intervals. Thorough adds the completely enumerated small "
                     "scope of C01 with block sizes 1..2. Non-trivial = all; distinct = distinct case lines."),
    "C03": dict(props=["Props/C03.v"], profiles=["debug"], gen=props2.gen_C03,
                rule="canonical well-formed files (must be accepted) and for each the corruption catalogue at sampled positions: data "
                     "field +-k, 2/4 fields, non-numeric, out of range, blank/junk/header inserted inside a section, header start/end +-k on "
                     "either side, start>end, size<end, 12/14 header fields, bad strand, bad number, terminator removed or made "
                     "non-terminating, data before the first header (must all be refused). Non-trivial = all; distinct = distinct case lines."),
    "C09": dict(props=["Props/C09.v"], profiles=["debug"], gen=props2.gen_C09,
                rule=LIFT_RULE + "For up to 6 non-empty intervals per file: the interval, its two parts at a cut on a block boundary / inside "
                     "a gap / at an end / random, and (length <= 12) every single base. Non-trivial = all; distinct = distinct case lines."),
    "C10": dict(props=["Props/C10.v"], profiles=["debug"], gen=props2.gen_C10,
                rule=LIFT_RULE + "Each file is built together with its role-exchanged twin; every pair the format says an interval lifts to is "
                     "queried back through the twin. Non-trivial = all; distinct = distinct case lines."),
    "C11": dict(props=["Props/C11.v"], profiles=["debug"], gen=props2.gen_C11, rerun=True,
                rule=LIFT_RULE + "Each file is built whole, as two complementary sub-files, permuted, with chains on other contigs added, "
                     "and a second time in the same process; all cases are run a second time in other processes (fresh hash seeds) and the "
                     "outputs compared verbatim. Non-trivial = all; distinct = distinct case lines."),
    "C16": dict(props=["Props/C16.v"], profiles=["debug"], gen=props2.gen_C16,
                rule=LIFT_RULE + "70% well-formed files (dictionaries and bounds of every returned coordinate), 30% with one contig redeclared "
                     "with another size on one side. Non-trivial = all; distinct = distinct case lines."),
})

PROPS.update({
    "C06": dict(props=["Props/C06.v"], profiles=["debug", "release"], gen=props2.gen_C06,
                rule="byte streams: valid files with zero-length blocks (30%), 1-3 point mutations of valid files incl. numbers replaced by "
                     "0/1/u64::MAX/u64::MAX+1/2^63 and inserted headers/blank lines (30%), contigs redeclared with another size (10%), "
                     "grammar-random line sequences incl. invalid UTF-8 (15%), random bytes (15%); each is built and queried (boundary intervals, "
                     "zero-length, 0..u64::MAX, both strands, unknown contigs) and drained through sections() past errors, lines() and raw reads; "
                     "plus step-throughs of generated sections (adding up / off by k / overflowing / odd kinds) and single lines; debug and release "
                     "profiles. Non-trivial = all; distinct = distinct case lines."),
    "C17": dict(props=["Props/C17.v"], profiles=["debug"], gen=props2.gen_C17,
                rule="files (valid, with inserted junk/blank lines, or random line sequences; LF or CRLF; with or without final newline) x random "
                     "histories of 1-14 operations over {read_line_raw, read_line, lines().next(), sections().next() (continuing), drop iterator}; "
                     "after every operation the harness records the bytes consumed from the underlying reader. Non-trivial = all; distinct = "
                     "distinct case lines."),
    "C18": dict(props=["Props/C18.v"], profiles=["debug", "release"], gen=props2.gen_C18, model_case=props2.c18_model_case, pre="c18_static",
                rule="well-formed files x 30 intervals lifted sequentially, then concurrently from 2/4/8/16 scoped threads sharing &Machine (three "
                     "rounds, rotated order per thread) and from a thread that received the machine in an Arc; compared with each other and with "
                     "the model's sequential answers; plus the compile-time Send+Sync obligations, the crate compiled with unsafe_code forbidden "
                     "and a token audit for interior mutability. Non-trivial = all; distinct = distinct case lines."),
})

PROPS.update({
    "C08": dict(props=["Props/C08.v"], profiles=["debug"], gen=props2.gen_C08,
                rule="well-formed files of up to 3 chains (40% with zero-length blocks, <= 1200 bytes) cut at every byte offset (quick: up to "
                     "160 sampled offsets per file when longer), each compared with the machines of all whole-chain prefixes over a signature "
                     "of up to 40 intervals (around every block, whole contigs); and for a random chunking of each file a hard failure and an "
                     "Interrupted error injected at every fill_buf index, plus interrupts before every chunk. Non-trivial = all; distinct = "
                     "distinct case lines."),
    "C12": dict(props=["Props/C12.v"], profiles=["debug"], gen=props2.gen_C12,
                rule="files (valid, with a junk line, or random line sequences split into sections) rendered with LF/CRLF x final newline or "
                     "none, with 0-2 blank lines before and 1-3 after each section, and read through chunk schedules (1 byte at a time, two-piece "
                     "splits, random compositions, the split between CR and LF); sections() and the built machine (6 intervals) compared across "
                     "variants; raw reads checked for byte counts and texts. Non-trivial = all; distinct = distinct case lines."),
    "C13": dict(props=["Props/C13.v"], profiles=["debug"], gen=props2.gen_C13,
                rule="header lines (15% corrupted; 60% with non-canonical numbers: leading zeros, '+'; odd contig names incl. empty, 'chain', "
                     "UTF-8, tabs), data lines (same), empty lines: parsed, printed, compared with the canonical spelling computed independently "
                     "and re-parsed; whole files in a non-canonical spelling vs their canonical re-serialisation (sections and machine over 10 "
                     "intervals). Non-trivial = accepted lines / files; distinct = distinct case lines."),
})
