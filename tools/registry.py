"""Registry of the registered properties: pinned-theorem files, build profiles, generator, rule text."""
import props
from props import *  # noqa: F401,F403
import props2
from props2 import *  # noqa: F401,F403

# ------------------------------------------------------------------------------------------------
# registry (properties of props.py)
# ------------------------------------------------------------------------------------------------

PROPS = {
    "C04": dict(props=["Props/C04.v"], profiles=["debug"], gen=gen_C04,
                rule="sections built through the public section builder from a generated header (all four strand pairs; extents at "
                     "u64::MAX, 2^63 in a quarter of the cases) and a record list: adding up (45%), off by +-k on either side or in a "
                     "record (30%), one value that overflows / underflows (15%), terminating records in odd places (10%); zero sizes in "
                     "30%. Both stepthrough() and stepthrough_with_data() are drained and must agree. All cases non-trivial; "
                     "distinct = distinct case lines."),
    "C05": dict(props=["Props/C05.v"], profiles=["debug"], gen=gen_C05,
                rule="byte streams made of lines over {blank, valid header, non-terminating data, terminating data, junk, invalid UTF-8}: "
                     "60% grammatical skeletons with 0-2 point mutations, 40% uniformly random strings, length 0..12+; sections() drained "
                     "to exhaustion (cap 60 calls). The thorough tier adds every string over the five-letter alphabet up to length 6. "
                     "Non-trivial = at least 2 lines; distinct = distinct case lines."),
    "C07": dict(props=["Props/C07.v"], profiles=["debug"], gen=gen_C07,
                rule="the C05 line streams (half of them extended to end inside a section) drained through sections() and lines(); the "
                     "C04 sections (adding up, off by k, overflowing, odd kinds) drained through both step-throughs; every drain is capped at "
                     "60 calls, far above lines+1 / records+1. Non-trivial = at least 2 lines / any section; distinct = distinct case lines."),
    "C14": dict(props=["Props/C14.v"], profiles=["debug", "release"], gen=gen_C14,
                rule="sequence constructor calls on (name,size,strand,start,end) strings drawn from valid numbers (incl. 0, u64::MAX, "
                     "leading zeros, '+'), invalid spellings and values around start<=end<=size; every (size,dt,dq,kind) shape of the record "
                     "constructor; header and data lines, valid and corrupted field-wise; run in debug and release. All generated cases count "
                     "as non-trivial; distinct = distinct case lines."),
    "C15": dict(props=["Props/C15.v"], profiles=["debug"], gen=gen_C15,
                rule="clamp/liftover/try_new calls on generated pairs: positions from {0..3, u64::MAX-3..u64::MAX} "
                     "(45%), 0..40 (40%), uniform u64 (15%); lengths 0,1,2,3,small,huge; all four strand pairs; clamp "
                     "intervals drawn around the reference ends. A case is non-trivial when the clamp interval meets the "
                     "reference interval on the same contig and strand / the lifted coordinate lies inside / the lengths differ; "
                     "distinct = distinct case lines."),
}


LIFT_RULE = ("well-formed chain files from the structured generator (1-6 chains; 1-3 contigs per side, names sometimes shared "
             "between the sides; the four strand combinations; block shapes one / 2-5 / 6-40 / one very long among many short; gaps "
             "(0,x) (x,0) (x,y) (0,0); non-zero starts and tails; duplicates; 10-15% with extents at 2^32, 2^63, u64::MAX) and "
             "intervals over the boundary set {0, 1, size, size+-1, every block start/end +-1, u64::MAX} plus random ones, both strands, "
             "unknown contigs, zero-length, past the contig end. ")

PROPS.update({
    "C01": dict(props=["Props/C01.v"], profiles=["debug"], gen=props2.gen_C01,
                rule=LIFT_RULE + "One case = one file with 24 intervals; zero-length blocks in 20% of the files. Non-trivial = all; distinct = distinct case lines."),
    "C02": dict(props=["Props/C02.v"], profiles=["debug"], gen=props2.gen_C02,
                rule=LIFT_RULE + "One case = one file (no zero-length blocks) with 24 intervals. Non-trivial = all; distinct = distinct case lines."),
    "C03": dict(props=["Props/C03.v"], profiles=["debug"], gen=props2.gen_C03,
                rule="canonical well-formed files (must be accepted) and for each the corruption catalogue at sampled positions: data "
                     "field +-k, 2/4 fields, non-numeric, out of range, blank/junk/header inserted inside a section, header start/end +-k on "
                     "either side, start>end, size<end, 12/14 header fields, bad strand, bad number, terminator removed or made "
                     "non-terminating, data before the first header (must all be refused). Non-trivial = all; distinct = distinct case lines."),
    "C09": dict(props=["Props/C09.v"], profiles=["debug"], gen=props2.gen_C09,
                rule=LIFT_RULE + "For up to 6 non-empty intervals per file: the interval, its two parts at a cut on a block boundary / inside "
                     "a gap / at an end / random, and (length <= 12) every single base. Non-trivial = all; distinct = distinct case lines."),
    "C10": dict(props=["Props/C10.v"], profiles=["debug"], gen=props2.gen_C10,
                rule=LIFT_RULE + "Each file is built together with its role-exchanged twin; every pair the format says an interval lifts to is "
                     "queried back through the twin. Non-trivial = all; distinct = distinct case lines."),
    "C11": dict(props=["Props/C11.v"], profiles=["debug"], gen=props2.gen_C11, rerun=True,
                rule=LIFT_RULE + "Each file is built whole, as two complementary sub-files, permuted, with chains on other contigs added, "
                     "and a second time in the same process; all cases are run a second time in other processes (fresh hash seeds) and the "
                     "outputs compared verbatim. Non-trivial = all; distinct = distinct case lines."),
    "C16": dict(props=["Props/C16.v"], profiles=["debug"], gen=props2.gen_C16,
                rule=LIFT_RULE + "70% well-formed files (dictionaries and bounds of every returned coordinate), 30% with one contig redeclared "
                     "with another size on one side. Non-trivial = all; distinct = distinct case lines."),
})
