#!/usr/bin/env python3
"""Regenerates /verif/MANIFEST.json from the table below (kept in one place so that it stays valid)."""
import json
import os

ROOT = os.path.dirname(os.path.dirname(os.path.abspath(__file__)))
NOTE = ("Trusted: Coq 8.16.1 kernel + vm_compute; no axioms (every pinned theorem prints 'Closed under the global context'); the "
        "hand-written Gallina model's fidelity to /repo/src and to the omics-coordinate / rust-lapper / std functions it calls, which are "
        "modelled, not verified (validated by differential testing only); extraction (ExtrOcamlBasic) and the OCaml/Rust/Python glue.")
TECH = "machine-checked proof in Coq (Rocq) + model/implementation correspondence check"

CLAIMS = {
 "C01": ("Theorems (Props/C01.v): for every list of sections with well-formed headers from which the model builds a machine and every "
         "interval, each returned pair is contiguous and equal-length and its i-th reference base is aligned by some block of some chain to "
         "its i-th query base (block meaning spelt out with forward = size-1-local on '-'); no bound on chains, blocks or coordinates "
         "(u64 range, checked arithmetic). The machine built from a stream of line reads is the machine of the parsed sections; C01_end_to_end composes the "
         "two from the source (bytes under any chunk schedule) to the base pairings, with C02's multiset equality in the same statement. Tied to "
         "the code by model/implementation comparison on generated files x boundary intervals and a Python oracle of the alignment relation.",
         "DESIGN.md 5 (C01), 4.2 (L2-L5)"),
 "C02": ("Theorems (Props/C02.v): liftover returns a value and the multiset of returned base pairings equals, pairing by pairing, the number "
         "of blocks on the same contig and strand aligning that base inside the interval (holds for every well-formed file and every interval); "
         "for non-empty intervals 'no mapping' iff that set is empty. The proof goes through rust-lapper's find = filter of the sorted vector "
         "(binary search, max_len window, early break all proved). Tied to the code as C01, with files weighted towards one very long block "
         "among many short.", "DESIGN.md 5 (C02), 4.2 (L3, L5)"),
 "C03": ("Theorems (Props/C03.v): a machine is built from a stream of line reads only if the grammar yields no error, every header is well "
         "formed and every chain adds up on both sides, and it is then exactly the section-level machine; any grammar error refuses the file; "
         "inconsistent contig sizes refuse it; C03_accepts_canonical: the bytes of re-serialised sections (LF or CRLF) are accepted as exactly "
         "those sections with the section-level verdict. Tied to the "
         "code by canonical files (must be accepted) and the corruption catalogue at sampled positions (must be refused).", "DESIGN.md 5 (C03)"),
 "C04": ("Five theorems (Props/C04.v): the drain of the step-through of any section with a well-formed header terminates and equals a "
         "six-line closed-form specification in offsets (every record list, all strands, values up to u64::MAX with checked moves); the k-th "
         "pair is in closed form (running sums of size+gap); completes without error iff the records add up to both extents; otherwise correct "
         "pairs followed by exactly one final error. Tied to the code by running the model and both step-through iterators on generated "
         "sections (adding up, off by k, overflowing) and by an independent Python oracle of the statement.", "DESIGN.md 5 (C04), 4.2 (L2)"),
 "C05": ("Three theorems (Props/C05.v): for every stream of line reads and every drain budget above lines+1, the items up to and including the "
         "first error equal the line grammar spec_sections (a recursive function over classified lines carrying the error kinds, 1-based blank "
         "line number and offending text), such a drain exists without panic, and every section yielded anywhere in the full drain (also after "
         "errors) is a run of consecutive input lines (C05_sections_are_runs). Tied to the code by draining sections() on generated and "
         "(thorough) exhaustively enumerated line strings, compared with the model and with a Python grammar oracle.", "DESIGN.md 5 (C05), 4.2 (L6)"),
 "C06": ("Five theorems (Props/C06.v) over a model in which every Rust panic site is an explicit Panic branch: the section iterator never "
         "panics from any reachable state (also after errors), building from any stream of line reads returns a machine or an error, lifting "
         "any well-formed interval over any built machine returns a value, printing a constructed record never hits its expect()s. Tied to the "
         "code by catch_unwind runs in debug and release on valid, mutated, grammar-random and byte-random streams, every iterator driven past "
         "errors. Partial: allocation failure and stack exhaustion are not modelled; panic sites are transcribed by hand.", "DESIGN.md 5 (C06)"),
 "C07": ("Four theorems (Props/C07.v): the stream of line reads over a byte string has at most LF-count+1 elements (what lines() yields); the section drain ends within lines+2 calls with at most one item per line; the step-through drain "
         "ends with at most records+1 items; after an error the step-through yields nothing; plus _refuted witnesses that the pre-fix code was "
         "unbounded. Tied to the code by capped drains of all three iterators on generated streams/sections (incl. streams ending inside a "
         "section, sections not adding up or out of bounds).", "DESIGN.md 5 (C07)"),
 "C08": ("Seven theorems (Props/C08.v): C08_truncation - for every byte string from which a machine is built and every cut offset k "
         "(inside a field, a number, a terminator, anywhere) building from the first k bytes fails or yields exactly the machine of a "
         "whole-chain prefix of the file's sections (proved through the reads of a truncated byte string, the parse of a proper prefix of a "
         "line, numeral prefixes and the irrelevance of trailing empty blocks); the same for whole lines; a hard read failure anywhere refuses "
         "the file and a failure at any fill_buf of any chunk schedule reaches the stream of reads (C08_hard_fault_schedule); inserting Interrupted errors in any fault-free chunk schedule changes nothing; "
         "C08_fault_reads / C08_hard_fault_is_io: the reads of any schedule that delivers a prefix of a byte string and then fails hard are the reads "
         "of the whole for the lines completed so far followed by the I/O error of the read in progress, and if the whole would have given a machine "
         "the build returns exactly that I/O error. Tied to the code by cutting generated files "
         "at every byte offset and injecting faults of four kinds at every fill_buf index (the oracle demands the I/O error).", "DESIGN.md 5 (C08), 5A"),
 "C09": ("Three theorems (Props/C09.v), corollaries of the multiset theorem: for every file, interval and cut position the base pairings of the "
         "whole are the multiset union of those of the two parts; a base maps identically through any two intervals containing it; every "
         "returned reference interval lies inside the requested one. Tied to the code on splits at block boundaries, inside gaps, at the ends, and "
         "down to single bases.", "DESIGN.md 5 (C09)"),
 "C10": ("Three theorems (Props/C10.v): the role-exchanged file aligns qb to rb exactly as often as the file aligns rb to qb (all strand "
         "combinations), it is well formed when the file is, and the two machines return the mirrored pairings through any intervals containing "
         "the bases. Tied to the code by building each generated file with its twin and lifting every expected pair back.", "DESIGN.md 5 (C10)"),
 "C11": ("Five theorems (Props/C11.v): results over a file are the multiset union of results over any partition of its chains; permuting the "
         "chains preserves all pairings; the pairs of one answer are sorted by forward reference start; the order in which the per-contig "
         "vectors reach the final map (hash iteration order) cannot change any answer (C11_order_free, keys distinct). Determinism is "
         "exercised on the code by rebuilding in-process and re-running every case in other processes (fresh hash seeds) with "
         "verbatim comparison.", "DESIGN.md 5 (C11)"),
 "C12": ("Nine theorems (Props/C12.v): for every chunk/interrupt schedule without a hard failure the stream of line reads equals that of the "
         "flat bytes (std read_until transcribed); a raw read reports exactly the bytes consumed and returns the text without LF / CRLF; a blank "
         "line between sections changes the grammar's items only in quoted line numbers; C12_eol: the same text lines terminated by LF or by CRLF "
         "are read back as the same texts; C12_final_newline: so are they when the last line lacks its terminator; C12_same_texts / C12_eol_machine / "
         "C12_final_newline_machine: streams of successful reads with the same texts give the same parsed lines, grammar items (sections, error kind "
         "and payload) and build result, hence LF vs CRLF and final newline or none give the same machine; C12_padding_anywhere: a blank line after "
         "any number of complete sections changes items and build result only in the line number quoted by a blank-line error. Tied to the code by the "
         "correspondence check over all encodings, paddings and chunkings.", "DESIGN.md 5 (C12), 4.2 (L8)"),
 "C13": ("Six theorems (Props/C13.v): decimal print/parse, header, data-record and line round trips for everything the parser accepts (hence "
         "canonical text prints back byte-identically), and re-serialised sections parse back to equal sections for every accepted file. Tied to "
         "the code with non-canonical spellings (leading zeros, '+'), odd contig names and whole files.", "DESIGN.md 5 (C13), 4.2 (L7)"),
 "C14": ("Six theorems (Props/C14.v): every accepted header has start<=end<=size<=u64::MAX on both sides; the record constructor and the data "
         "line parser fix kind/gaps/field count exactly; a sequence with end<=size converts to the stated interval; end>size never wraps or "
         "panics (error on '-', literal interval on '+'). Tied to the code in debug and release builds on generated constructor calls and lines.",
         "DESIGN.md 5 (C14)"),
 "C15": ("Six theorems (Props/C15.v) state the interval-pair algebra for all pairs, coordinates and clamp intervals with positions over the "
         "whole u64 range, proved with no axioms about the Gallina model of interval_pair.rs and of the omics-coordinate functions it calls; tied "
         "to the code by running both on generated calls (boundary positions 0..3 and u64::MAX-3..u64::MAX, all strand pairs, all clamp shapes) "
         "and by an independent Python oracle of the property.", "DESIGN.md 5 (C15), 4.2 (L1, L4)"),
 "C16": ("Three theorems (Props/C16.v): the dictionaries of a built machine are exactly the (name, size) pairs of the headers, per side; a "
         "file declaring a contig with two sizes never yields a machine; every returned coordinate is at most the reported size of its contig. "
         "Tied to the code on generated files incl. shared names across sides and redeclared sizes.", "DESIGN.md 5 (C16)"),
 "C17": ("Five theorems (Props/C17.v): for every history of reader operations the reads consumed by the operations, in order, followed by "
         "what is left, are the stream (every line observed exactly once); single-line methods advance by one line; yielding a section consumes "
         "nothing beyond its terminating line; at the byte level the counts the raw reads report add up to the input length under every chunking "
         "and the first k reads consumed exactly the first k raw lines. Tied to the code by random operation histories with the underlying cursor position observed after "
         "every operation.", "DESIGN.md 5 (C17)"),
 "C18": ("Partial. Two theorems (Props/C18.v): for read-only clients of one shared machine every schedule yields per thread exactly the "
         "sequential answers (schedule independence). The premise (a liftover step writes nothing shared) is checked on the code: compile-time "
         "Send+Sync obligations for Machine, pairs and all public error types, the crate compiled with unsafe_code forbidden, a token audit for "
         "interior mutability, and real 2-16 thread runs compared with sequential runs and with the model. Real hardware interleavings are not "
         "exhibited by the model.", "DESIGN.md 5 (C18)"),
}

ALL = ["C%02d" % i for i in range(1, 19)]


def main():
    checks = []
    for pid in ALL:
        if pid not in CLAIMS:
            continue
        text, ref = CLAIMS[pid]
        checks.append({
            "property_id": pid,
            "quick_cmd": "./check %s --tier quick" % pid,
            "thorough_cmd": "./check %s --tier thorough" % pid,
            "evidence_file": "evidence/%s.json" % pid,
            "replay_cmd_template": "./check %s --replay {path}" % pid,
            "engine": "coq-model+correspondence",
            "level_claimed": {"category": "proof", "text": text, "design_ref": ref},
            "level_note": NOTE,
            "technique": TECH,
        })
    na = [{"property_id": p, "reason": "check not built yet in this revision (work in progress; see DESIGN.md section 5)"}
          for p in ALL if p not in CLAIMS]
    m = {
        "version": 1,
        "setup_cmd": "./setup.sh",
        "hooks": {"guard": "chainfile_verif",
                  "enable": "none needed: every observable is reached through the public API; the harness /verif/harness depends on /repo by path",
                  "baseline_off_cmd": "cd /repo && cargo test --workspace --no-fail-fast --offline",
                  "source_commits": [], "add_only": True},
        "engines": [{"name": "coq-model+correspondence", "path": "/verif/check", "serves_properties": sorted(CLAIMS),
                     "kind_free_text": "Coq 8.16 theorems about a hand-written executable Gallina model; the model is extracted to OCaml and "
                                       "compared with the Rust implementation (rebuilt from /repo on every run) on generated cases; a sample is "
                                       "re-evaluated by vm_compute inside coqc; an independent Python oracle decides the property on the "
                                       "implementation's outputs"}],
        "checks": checks,
        "not_applicable": na,
        "notes": "Properties move from not_applicable to checks as their theorems and correspondence checks land.",
    }
    if not na:
        del m["not_applicable"]
    json.dump(m, open(os.path.join(ROOT, "MANIFEST.json"), "w"), indent=1)


if __name__ == "__main__":
    main()
