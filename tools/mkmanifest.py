#!/usr/bin/env python3
"""Regenerates /verif/MANIFEST.json from the table below (kept in one place so that it stays valid)."""
import json
import os

ROOT = os.path.dirname(os.path.dirname(os.path.abspath(__file__)))
NOTE = ("Trusted: Coq 8.16.1 kernel + vm_compute; no axioms (every pinned theorem prints 'Closed under the global context'); the "
        "hand-written Gallina model's fidelity to /repo/src and to the omics-coordinate / rust-lapper / std functions it calls, which are "
        "modelled, not verified (validated by differential testing only); extraction (ExtrOcamlBasic) and the OCaml/Rust/Python glue.")
TECH = "machine-checked proof in Coq (Rocq) + model/implementation correspondence check"

CLAIMS = {
 "C04": ("Five theorems (Props/C04.v): the drain of the step-through of any section with a well-formed header terminates and equals a "
         "six-line closed-form specification in offsets (every record list, all strands, values up to u64::MAX with checked moves); the k-th "
         "pair is in closed form (running sums of size+gap); completes without error iff the records add up to both extents; otherwise correct "
         "pairs followed by exactly one final error. Tied to the code by running the model and both step-through iterators on generated "
         "sections (adding up, off by k, overflowing) and by an independent Python oracle of the statement.", "DESIGN.md 5 (C04), 4.2 (L2)"),
 "C05": ("Two theorems (Props/C05.v): for every stream of line reads and every drain budget above lines+1, the items up to and including the "
         "first error equal the line grammar spec_sections (a recursive function over classified lines carrying the error kinds, 1-based blank "
         "line number and offending text), and such a drain exists without panic. Tied to the code by draining sections() on generated and "
         "(thorough) exhaustively enumerated line strings, compared with the model and with a Python grammar oracle.", "DESIGN.md 5 (C05), 4.2 (L6)"),
 "C07": ("Three theorems (Props/C07.v): the section drain ends within lines+2 calls with at most one item per line; the step-through drain "
         "ends with at most records+1 items; after an error the step-through yields nothing; plus _refuted witnesses that the pre-fix code was "
         "unbounded. Tied to the code by capped drains of all three iterators on generated streams/sections (incl. streams ending inside a "
         "section, sections not adding up or out of bounds).", "DESIGN.md 5 (C07)"),
 "C14": ("Six theorems (Props/C14.v): every accepted header has start<=end<=size<=u64::MAX on both sides; the record constructor and the data "
         "line parser fix kind/gaps/field count exactly; a sequence with end<=size converts to the stated interval; end>size never wraps or "
         "panics (error on '-', literal interval on '+'). Tied to the code in debug and release builds on generated constructor calls and lines.",
         "DESIGN.md 5 (C14)"),
 "C15": ("Six theorems (Props/C15.v) state the interval-pair algebra for all pairs, coordinates and clamp intervals with positions over the "
         "whole u64 range, proved with no axioms about the Gallina model of interval_pair.rs and of the omics-coordinate functions it calls; tied "
         "to the code by running both on generated calls (boundary positions 0..3 and u64::MAX-3..u64::MAX, all strand pairs, all clamp shapes) "
         "and by an independent Python oracle of the property.", "DESIGN.md 5 (C15), 4.2 (L1, L4)"),
}

ALL = ["C%02d" % i for i in range(1, 19)]


def main():
    checks = []
    for pid in ALL:
        if pid not in CLAIMS:
            continue
        text, ref = CLAIMS[pid]
        checks.append({
            "property_id": pid,
            "quick_cmd": "./check %s --tier quick" % pid,
            "thorough_cmd": "./check %s --tier thorough" % pid,
            "evidence_file": "evidence/%s.json" % pid,
            "replay_cmd_template": "./check %s --replay {path}" % pid,
            "engine": "coq-model+correspondence",
            "level_claimed": {"category": "proof", "text": text, "design_ref": ref},
            "level_note": NOTE,
            "technique": TECH,
        })
    na = [{"property_id": p, "reason": "check not built yet in this revision (work in progress; see DESIGN.md section 5)"}
          for p in ALL if p not in CLAIMS]
    m = {
        "version": 1,
        "setup_cmd": "./setup.sh",
        "hooks": {"guard": "chainfile_verif",
                  "enable": "none needed: every observable is reached through the public API; the harness /verif/harness depends on /repo by path",
                  "baseline_off_cmd": "cd /repo && cargo test --workspace --no-fail-fast --offline",
                  "source_commits": [], "add_only": True},
        "engines": [{"name": "coq-model+correspondence", "path": "/verif/check", "serves_properties": sorted(CLAIMS),
                     "kind_free_text": "Coq 8.16 theorems about a hand-written executable Gallina model; the model is extracted to OCaml and "
                                       "compared with the Rust implementation (rebuilt from /repo on every run) on generated cases; a sample is "
                                       "re-evaluated by vm_compute inside coqc; an independent Python oracle decides the property on the "
                                       "implementation's outputs"}],
        "checks": checks,
        "not_applicable": na,
        "notes": "Properties move from not_applicable to checks as their theorems and correspondence checks land.",
    }
    if not na:
        del m["not_applicable"]
    json.dump(m, open(os.path.join(ROOT, "MANIFEST.json"), "w"), indent=1)


if __name__ == "__main__":
    main()
