#!/usr/bin/env python3
"""Applies every seeded change under /verif/seeded/<id>/patch.diff to /repo in turn, runs the quick checks
(the property the change targets first, then all others), records which checks report a violation, and restores
/repo.  Writes /verif/seeded/RESULTS.md.  Usage: run_seeded.py [id ...] [--all-props]"""
import json
import os
import subprocess
import sys
import time

ROOT = os.path.dirname(os.path.dirname(os.path.abspath(__file__)))
ALL = ["C%02d" % i for i in range(1, 19)]


def sh(cmd, **kw):
    return subprocess.run(cmd, shell=True, stdout=subprocess.PIPE, stderr=subprocess.STDOUT, text=True, **kw)


def main():
    args = [a for a in sys.argv[1:] if not a.startswith("--")]
    allprops = "--all-props" in sys.argv
    sub = "refactors" if "--refactors" in sys.argv else "seeded"   # refactors: harmless changes, no check may raise an alarm
    if sub == "refactors":
        allprops = True
    ids = args or sorted(d for d in os.listdir(os.path.join(ROOT, sub)) if os.path.isdir(os.path.join(ROOT, sub, d)))
    assert sh("git -C /repo status --porcelain --untracked-files=no").stdout.strip() == "", "/repo has local changes"
    results = {}
    resfile = os.path.join(ROOT, sub, "results.json")
    if os.path.exists(resfile):
        results = json.load(open(resfile))
    for sid in ids:
        d = os.path.join(ROOT, sub, sid)
        meta = json.load(open(os.path.join(d, "meta.json")))
        target = meta["property"]
        r = sh("git -C /repo apply %s" % os.path.join(d, "patch.diff"))
        if r.returncode != 0:
            results[sid] = {"property": target, "error": "patch does not apply: " + r.stdout[-300:]}
            continue
        try:
            props = [target] + ([p for p in ALL if p != target] if allprops else [])
            caught, lines = [], {}

            def one(p):
                # by default without the changed-source boost (cflib.source_changes): what is recorded is what the plain quick
                # volumes catch; --boost measures the check as it really runs on a changed tree
                env = dict(os.environ) if "--boost" in sys.argv else dict(os.environ, VERIF_NO_BOOST="1")
                c = sh("./check %s --tier quick" % p, cwd=ROOT, env=env)
                v = [l for l in c.stdout.split("\n") if l.startswith("VIOLATION")]
                if c.returncode != 0 or v:
                    line = (v[:1] or [c.stdout[-200:]])[0]
                    if v and "replay=" in v[0]:
                        rp = v[0].split("replay=")[1].split(" ")[0]
                        try:
                            line += " :: " + json.load(open(rp)).get("message", "")[:200]
                        except Exception:
                            pass
                    return p, line
                return p, None
            if "--parallel" in sys.argv and len(props) > 1:
                import concurrent.futures
                with concurrent.futures.ThreadPoolExecutor(max_workers=6) as ex:
                    outs = list(ex.map(one, props))
            else:
                outs = [one(p) for p in props]
            for p, line in outs:
                if line is not None:
                    caught.append(p)
                    lines[p] = line
            results[sid] = {"property": target, "caught_by": caught, "first_violation": lines, "checked": props}
            print(sid, "->", caught, flush=True)
        finally:
            sh("git -C /repo checkout -- .")
        json.dump(results, open(resfile, "w"), indent=1, sort_keys=True)
    assert sh("git -C /repo status --porcelain --untracked-files=no").stdout.strip() == ""
    with open(os.path.join(ROOT, sub, "RESULTS.md"), "w") as f:
        if sub == "refactors":
            f.write("# Harmless refactors (the property still holds) and the checks that raise an alarm on them\n\n"
                    "Each change compiles and passes the 52 tests; all 18 quick checks are run; `caught by` should be empty "
                    "(shown as **missed**, which here means: no alarm).\n\n")
        else:
            f.write("# Seeded changes and the checks that report them\n\n")
            f.write("Each change compiles, passes the 52 existing tests, and breaks the named property (demo.rs fails with it, passes without).\n")
            f.write("`caught by` = quick checks that exit 1 with a VIOLATION line when the patch is applied to /repo.\n\n")
        f.write("| seeded change | targets | caught by | first report |\n|---|---|---|---|\n")
        for sid in sorted(results):
            r = results[sid]
            if "error" in r:
                f.write("| %s | %s | ERROR | %s |\n" % (sid, r["property"], r["error"]))
                continue
            first = r["first_violation"].get(r["property"]) or (list(r["first_violation"].values()) or [""])[0]
            first = first.split(" :: ", 1)[1] if " :: " in first else first
            f.write("| %s | %s | %s | %s |\n" % (sid, r["property"], ", ".join(r["caught_by"]) or "**missed**",
                                               first.replace("|", "/")[:220]))
    # make sure the harness is rebuilt against the restored tree
    sh("./check C15 --tier quick", cwd=ROOT)


if __name__ == "__main__":
    main()
