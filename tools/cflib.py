"""Shared machinery of the chainfile verification checks: build, proof-side audit, running the
implementation harness and the extracted model on case files, comparison, evidence, findings."""
import concurrent.futures as cf
import fcntl
import json
import os
import re
import subprocess
import sys
import time

ROOT = os.path.dirname(os.path.dirname(os.path.abspath(__file__)))
COQ = os.path.join(ROOT, "coq")
CACHE = os.path.join(ROOT, ".cache")
DRIVER_DIR = os.path.join(CACHE, "driver")
DRIVER = os.path.join(DRIVER_DIR, "driver")
TARGET = os.path.join(CACHE, "target")
HARNESS_SRC = os.path.join(ROOT, "harness")
REPO = "/repo"
NPROC = 16

ENV = dict(os.environ)
ENV.update({"CARGO_NET_OFFLINE": "true", "CARGO_TARGET_DIR": TARGET})

FORBIDDEN = re.compile(
    r"\b(Admitted|admit|Axiom|Axioms|Parameter|Parameters|Conjecture|Conjectures|Hypothesis|Hypotheses|Variable|Variables"
    r"|Admit Obligations|Unset Guard|Guard Checking|bypass_check|type-in-type|impredicative-set|Unset Positivity|Unset Universe)\b")


class BuildError(Exception):
    def __init__(self, what, log):
        super().__init__(what)
        self.what = what
        self.log = log


def hexs(b):
    if isinstance(b, str):
        b = b.encode("latin-1")
    return b.hex()


def xtok(b):
    return "x" + hexs(b)


def run(cmd, cwd=None, timeout=1800, env=None, input=None):
    p = subprocess.run(cmd, cwd=cwd, env=env or ENV, stdout=subprocess.PIPE, stderr=subprocess.STDOUT,
                       timeout=timeout, input=input)
    return p.returncode, p.stdout.decode("utf-8", "replace")


class Lock:
    def __init__(self, name):
        os.makedirs(CACHE, exist_ok=True)
        self.path = os.path.join(CACHE, name + ".lock")

    def __enter__(self):
        self.f = open(self.path, "w")
        fcntl.flock(self.f, fcntl.LOCK_EX)
        return self

    def __exit__(self, *a):
        fcntl.flock(self.f, fcntl.LOCK_UN)
        self.f.close()


# ------------------------------------------------------------------------------------------------
# build
# ------------------------------------------------------------------------------------------------

def coq_sources():
    out = []
    for d, _, fs in os.walk(COQ):
        for f in fs:
            if f.endswith(".v"):
                out.append(os.path.join(d, f))
    return sorted(out)


def build_coq(targets=None):
    """Full .vo build of the development (incremental); returns the log."""
    with Lock("coq"):
        if not os.path.exists(os.path.join(COQ, "Makefile")) or \
                os.path.getmtime(os.path.join(COQ, "Makefile")) < os.path.getmtime(os.path.join(COQ, "_CoqProject")):
            rc, log = run(["coq_makefile", "-f", "_CoqProject", "-o", "Makefile"], cwd=COQ)
            if rc != 0:
                raise BuildError("coq_makefile", log)
        cmd = ["timeout", "1500", "make", "-j%d" % NPROC, "-k"] + (targets or [])
        rc, log = run(cmd, cwd=COQ, timeout=1600)
        return rc, log


def build_driver():
    """Extraction happened as part of the Coq build (Extract/Extract.v writes coq/model.ml)."""
    with Lock("driver"):
        os.makedirs(DRIVER_DIR, exist_ok=True)
        src_ml = os.path.join(COQ, "model.ml")
        if not os.path.exists(src_ml):
            # force re-extraction
            for ext in (".vo", ".vos", ".vok", ".glob"):
                p = os.path.join(COQ, "Extract", "Extract" + ext)
                if os.path.exists(p):
                    os.remove(p)
            rc, log = build_coq(["Extract/Extract.vo"])
            if rc != 0 or not os.path.exists(src_ml):
                raise BuildError("extraction", log)
        stamp = os.path.join(DRIVER_DIR, "stamp")
        need = (not os.path.exists(DRIVER)) or (not os.path.exists(stamp))
        if not need:
            need = os.path.getmtime(src_ml) > os.path.getmtime(stamp) or \
                os.path.getmtime(os.path.join(ROOT, "driver", "main.ml")) > os.path.getmtime(stamp)
        if need:
            for f in ("model.ml", "model.mli"):
                with open(os.path.join(COQ, f), "rb") as a, open(os.path.join(DRIVER_DIR, f), "wb") as b:
                    b.write(a.read())
            with open(os.path.join(ROOT, "driver", "main.ml"), "rb") as a, open(os.path.join(DRIVER_DIR, "main.ml"), "wb") as b:
                b.write(a.read())
            rc, log = run(["ocamlfind", "ocamlopt", "-O3", "-w", "-a", "model.mli", "model.ml", "main.ml", "-o", "driver"],
                          cwd=DRIVER_DIR)
            if rc != 0:
                raise BuildError("ocamlopt", log)
            open(stamp, "w").write(str(time.time()))


HARNESS_NOTES = []


def build_harness(profile="debug"):
    """Always invokes cargo, so the harness is rebuilt from /repo's current working tree."""
    with Lock("cargo"):
        lock_src = os.path.join(REPO, "Cargo.lock")
        lock_dst = os.path.join(HARNESS_SRC, "Cargo.lock")
        if os.path.exists(lock_src):
            data = open(lock_src, "rb").read()
            if not os.path.exists(lock_dst):
                open(lock_dst, "wb").write(data)
        cmd = ["timeout", "1500", "cargo", "build", "--offline", "--quiet"]
        if profile == "release":
            cmd.append("--release")
        rc, log = run(cmd, cwd=HARNESS_SRC, timeout=1600)
        if rc != 0:
            # one retry with a fresh lock file copy (the repo's lock may have changed)
            if os.path.exists(lock_src):
                open(lock_dst, "wb").write(open(lock_src, "rb").read())
                rc, log = run(cmd, cwd=HARNESS_SRC, timeout=1600)
        if rc != 0:
            # the tree may have renamed or reshaped error variants the harness names (features sec, rdr, lin, bld - one per enum):
            # drop as few of them as possible.  Errors of an enum whose names are gone are classified without naming a variant;
            # cases whose answer is one of C05's named kinds of that enum then differ from the model and are reported by the
            # checks that have such cases, every other check still runs.
            import itertools
            feats = ["sec", "rdr", "lin", "bld"]
            done = False
            for k in (3, 2, 1, 0):
                for keep in itertools.combinations(feats, k):
                    rc2, _log2 = run(cmd + ["--no-default-features", "--features", ",".join(keep)], cwd=HARNESS_SRC, timeout=1600)
                    if rc2 == 0:
                        note = ("harness built without the variant names of %s: they do not compile against this tree (%s)" % (
                            ", ".join(f for f in feats if f not in keep),
                            " ".join(l.strip() for l in log.split("\n") if l.startswith("error"))[:300]))
                        if note not in HARNESS_NOTES:
                            HARNESS_NOTES.append(note)
                        done = True
                        break
                if done:
                    break
            if not done:
                raise BuildError("cargo build (%s) of the harness against /repo" % profile, log)
        return os.path.join(TARGET, profile, "cf-harness")


# ------------------------------------------------------------------------------------------------
# proof side
# ------------------------------------------------------------------------------------------------

def audit_sources():
    """grep the development for anything that declares an axiom or switches a check off"""
    bad = []
    for p in coq_sources():
        txt = open(p).read()
        # strip comments (non-nested is enough for our sources; nested handled by loop)
        prev = None
        while prev != txt:
            prev = txt
            txt = re.sub(r"\(\*(?:(?!\(\*|\*\)).)*\*\)", " ", txt, flags=re.S)
        in_section = 0
        for ln, line in enumerate(txt.split("\n"), 1):
            if re.match(r"\s*Section\b", line):
                in_section += 1
            if re.match(r"\s*End\b", line) and in_section:
                in_section -= 1
            for m in FORBIDDEN.finditer(line):
                w = m.group(1)
                if w in ("Variable", "Variables", "Hypothesis", "Hypotheses") and in_section:
                    continue
                bad.append("%s:%d: %s" % (os.path.relpath(p, ROOT), ln, w))
    proj = open(os.path.join(COQ, "_CoqProject")).read()
    for flag in ("-type-in-type", "-impredicative-set", "-vos", "-vok", "-noinit"):
        if flag in proj:
            bad.append("_CoqProject: " + flag)
    return bad


def proof_side(props_files, allow_axioms=()):
    """Build, then recompile each pinned-statement file and read its Print Assumptions output.
    Returns dict(obligations, discharged, theorems=[(name, status)], log, failures=[...])."""
    res = {"obligations": 0, "discharged": 0, "theorems": [], "failures": [], "axioms": []}
    rc, log = build_coq()
    bad = audit_sources()
    if bad:
        res["failures"].append("forbidden constructs: " + "; ".join(bad))
    for pf in props_files:
        src = os.path.join(COQ, pf)
        txt = open(src).read()
        names = re.findall(r"^\s*Theorem\s+(\w+)", txt, flags=re.M)
        printed = re.findall(r"^\s*Print Assumptions\s+(\w+)\s*\.", txt, flags=re.M)
        res["obligations"] += len(names)
        for n in names:
            if n not in printed:
                res["failures"].append("%s: no Print Assumptions for %s" % (pf, n))
        vo = src[:-2] + ".vo"
        with Lock("coq"):
            rc2, out = run(["timeout", "900", "coqc", "-q", "-Q", ".", "CF", pf], cwd=COQ, timeout=1000)
        if rc2 != 0 or not os.path.exists(vo):
            res["failures"].append("%s does not compile:\n%s\n--- make log tail ---\n%s" % (pf, out[-3000:], log[-3000:]))
            for n in names:
                res["theorems"].append((n, "unproved"))
            continue
        # split the output per Print Assumptions, in order
        chunks = re.split(r"(?=Closed under the global context|Axioms:)", out)
        chunks = [c for c in chunks if c.startswith("Closed") or c.startswith("Axioms:")]
        for i, n in enumerate(printed):
            if n not in names:
                continue
            if i >= len(chunks):
                res["theorems"].append((n, "no-output"))
                res["failures"].append("%s: missing assumption report for %s" % (pf, n))
                continue
            c = chunks[i]
            if c.startswith("Closed"):
                res["theorems"].append((n, "closed"))
                res["discharged"] += 1
            else:
                ax = re.findall(r"^(\S+)\s*:", c[len("Axioms:"):], flags=re.M)
                extra = [a for a in ax if a not in allow_axioms]
                res["axioms"] += ax
                if extra:
                    res["theorems"].append((n, "axioms:" + ",".join(extra)))
                    res["failures"].append("%s: %s depends on axioms %s" % (pf, n, extra))
                else:
                    res["theorems"].append((n, "allowed-axioms"))
                    res["discharged"] += 1
    return res


# ------------------------------------------------------------------------------------------------
# running cases
# ------------------------------------------------------------------------------------------------

def _big_stack():
    # the extracted model recurses once per byte of a line (non-tail-recursive list functions): a 140 kB line needs more than 8 MB
    import resource
    try:
        resource.setrlimit(resource.RLIMIT_STACK, (resource.RLIM_INFINITY, resource.RLIM_INFINITY))
    except (ValueError, OSError):
        pass


def _run_shard(binary, lines, timeout):
    data = ("\n".join(lines) + "\n").encode("ascii")
    p = subprocess.run([binary], input=data, stdout=subprocess.PIPE, stderr=subprocess.PIPE, timeout=timeout, preexec_fn=_big_stack)
    out = p.stdout.decode("ascii", "replace").split("\n")
    if out and out[-1] == "":
        out.pop()
    if p.returncode != 0 or len(out) != len(lines):
        # the process died (abort, stack overflow, ...): find the case by bisection, one by one
        res = []
        for ln in lines:
            try:
                q = subprocess.run([binary], input=(ln + "\n").encode("ascii"), stdout=subprocess.PIPE,
                                   stderr=subprocess.PIPE, timeout=60, preexec_fn=_big_stack)
                o = q.stdout.decode("ascii", "replace").split("\n")[0] if q.returncode == 0 else "CRASH rc=%d" % q.returncode
            except subprocess.TimeoutExpired:
                o = "TIMEOUT"
            res.append(o)
        return res
    return out


FINGERPRINT = os.path.join(ROOT, "source_fingerprint.json")


def source_fingerprint():
    """sha256 of every file the harness is compiled from in /repo (src/**/*.rs, Cargo.toml)"""
    import hashlib
    out = {}
    files = [os.path.join(REPO, "Cargo.toml")]
    for base, _dirs, names in os.walk(os.path.join(REPO, "src")):
        files += [os.path.join(base, n) for n in names if n.endswith(".rs")]
    for f in sorted(files):
        try:
            out[os.path.relpath(f, REPO)] = hashlib.sha256(open(f, "rb").read()).hexdigest()
        except OSError:
            pass
    return out


def source_changes():
    """files of /repo that differ from the tree this framework was last validated against (source_fingerprint.json, written by
    tools/fingerprint.py, never at check time).  Not a verdict of any kind: a changed file only makes the quick tier generate the
    thorough tier's volume of cases, because changed code is where a correspondence break is to be looked for."""
    if os.environ.get("VERIF_NO_BOOST") or not os.path.exists(FINGERPRINT):
        return []
    ref = json.load(open(FINGERPRINT))
    cur = source_fingerprint()
    return sorted(k for k in set(cur) | set(ref) if cur.get(k) != ref.get(k))


_E_ITEM = re.compile(r"E\([^ ]*\)")
_E_PAYLOAD = re.compile(r"E\((hdrin|databetween):[^ ]*?\)(?=@| |$)")
_ERR_TOK = re.compile(r"\berr:[a-z0-9]+")


def norm_out(case, out, pid=None):
    """What is compared between implementation and model.  For a refused build, WHICH of several defects of the file is
    reported is no property's business (C03: 'refused with an error'): it depends on the order in which the builder happens to
    validate (streaming, or all sections first), and a harmless reordering must not break the correspondence.  The kinds the
    properties do name are checked where they are named: C05's section errors on the `sections` command (compared exactly), C08's
    'surfaces as an I/O error' by its oracle on the raw output, C12's 'same error kind under every encoding' by its oracle."""
    if out is not None and out.startswith("err ") and case.split(" ", 1)[0] in ("build", "dump", "threads"):
        return "err"
    # The KIND of a section / line / reader error is C05's subject and C12's ("do not change any ... error kind ... only line numbers
    # quoted in errors shift"); C08's oracle reads the raw output.  Every other property is about something else - how many items, where the cursor stands, what round-trips, whether
    # anything panics - so its comparison with the model keeps the shape (an error item here, a section there) and drops the kind:
    # a tree that renames an error variant is then reported by C05, which cannot decide without the name, and by nobody else.
    if out is not None and case.split(" ", 1)[0] in ("sections", "ops"):
        # the record a header-in-section / data-between-sections error carries is nobody's subject (C05 names the kind only)
        out = _E_PAYLOAD.sub(r"E(\1)", out)
    if pid not in ("C05", "C12") and out is not None and case.split(" ", 1)[0] in ("sections", "ops", "lines", "raw", "pline"):
        out = _ERR_TOK.sub("err:*", _E_ITEM.sub("E(*)", out))
    # C15: "a different contig or strand is an error", "constructing a pair from unequal lengths is refused" - which variant
    # carries the refusal is not stated (the harmless refactor C15-t3 introduces its own variants)
    cmd = case.split(" ", 1)[0]
    if out is not None and out.startswith("ok ") and cmd in ("build", "threads") and "some[" in out:
        # C11 fixes the order of the pairs of one answer up to ties: "ordered by non-decreasing forward start of their reference
        # interval".  Pairs with the same forward start may come in any (deterministic) order - the pinned code has them in file
        # order - so within a run of equal forward starts the comparison with the model ignores the order.  A run is a run of
        # CONSECUTIVE pairs: an answer that is not sorted stays different from the model's (and the C11 oracle reports it).
        def canon(tok):
            if not (tok.startswith("some[") and tok.endswith("]")):
                return tok
            pairs = tok[5:-1].split(",")

            def fwd(p):
                r = p.split(">")[0].split(":")
                return min(int(r[2]), int(r[3]))
            res, run = [], []
            for p in pairs:
                if run and fwd(p) != fwd(run[-1]):
                    res += sorted(run)
                    run = []
                run.append(p)
            res += sorted(run)
            return "some[" + ",".join(res) + "]"
        try:
            return " ".join(canon(t) for t in out.split(" "))
        except (ValueError, IndexError):
            return out
    if out is not None and out.startswith("err ") and cmd in ("clamp", "plift", "ptry"):
        return "refused" if cmd == "clamp" else "err"
    # clamp to an interval that does not meet the reference interval is outside C15's quantifier ("any interval ... that meets
    # the reference interval"): the pinned code panics there, a rewrite may as well return an error.  Inside the quantifier the
    # C15 oracle demands the exact intersection, so a panic or an error there is still reported.
    if out == "panic" and cmd == "clamp":
        return "refused"
    return out


def run_cases(binary, cases, timeout=900):
    if not cases:
        return []
    n = min(NPROC, max(1, len(cases) // 50))
    shards = [cases[i::n] for i in range(n)]
    with cf.ThreadPoolExecutor(max_workers=n) as ex:
        futs = [ex.submit(_run_shard, binary, s, timeout) for s in shards]
        outs = []
        for f in futs:
            try:
                outs.append(f.result())
            except subprocess.TimeoutExpired:
                outs.append(None)
    res = [None] * len(cases)
    for k, o in enumerate(outs):
        idxs = list(range(k, len(cases), n))
        if o is None:
            for i in idxs:
                res[i] = "TIMEOUT"
        else:
            for i, v in zip(idxs, o):
                res[i] = v
    return res


def _xcheck_shard(cases, expected, tag, k):
    d = os.path.join(CACHE, "xcheck")
    os.makedirs(d, exist_ok=True)
    path = os.path.join(d, "x_%s_%d_%d.v" % (tag, os.getpid(), k))
    with open(path, "w") as f:
        f.write("Require Import Coq.Strings.String Coq.Strings.Ascii.\nRequire Import CF.Model.Base CF.Model.Harness.\n")
        f.write("Definition b (s : string) : list N := map N_of_ascii (list_ascii_of_string s).\n")
        f.write("Definition ok (c e : string) : bool := bytes_eqb (run_case (b c)) (b e).\n")
        f.write("Definition cases : list (string * string) := [\n")
        f.write(";\n".join('("%s", "%s")%%string' % (c, e) for c, e in zip(cases, expected)))
        f.write("].\n")
        f.write("Eval vm_compute in map (fun ce => ok (fst ce) (snd ce)) cases.\n")
    rc, out = run(["timeout", "600", "coqc", "-q", "-Q", COQ, "CF", path], cwd=d, timeout=700)
    for ext in (".v", ".vo", ".glob", ".vok", ".vos"):
        p = path[:-2] + ext
        if os.path.exists(p):
            os.remove(p)
    aux = os.path.join(d, "." + os.path.basename(path)[:-2] + ".aux")
    if os.path.exists(aux):
        os.remove(aux)
    if rc != 0:
        return ["coqc failed: " + out[-2000:]]
    vals = re.findall(r"\b(true|false)\b", out.split("=", 1)[1] if "=" in out else out)
    bad = [cases[i] for i, v in enumerate(vals[:len(cases)]) if v != "true"]
    if len(vals) < len(cases):
        bad.append("short output from coqc")
    return bad


def coq_crosscheck(cases, expected, tag, budget=40000):
    """Evaluate run_case on a sample inside coqc (vm_compute) and compare with the driver's output.
    The sample is cut to a total size budget and sharded over parallel coqc processes."""
    sel_c, sel_e, tot = [], [], 0
    for c, e in zip(cases, expected):
        if '"' in c or '"' in e:
            continue
        if tot + len(c) + len(e) > budget and sel_c:
            continue
        sel_c.append(c)
        sel_e.append(e)
        tot += len(c) + len(e)
    if not sel_c:
        return 0, []
    n = min(8, max(1, len(sel_c) // 10))
    with cf.ThreadPoolExecutor(max_workers=n) as ex:
        futs = [ex.submit(_xcheck_shard, sel_c[k::n], sel_e[k::n], tag, k) for k in range(n)]
        bad = []
        for f in futs:
            bad += f.result()
    return len(sel_c), bad


def c18_static():
    """Static obligations of C18 on the code itself.  Returns {"direct": [...], "premise": [...]}:
    direct  = the property text is violated as such: unsafe code in the library, or the crate does not compile with
              unsafe_code forbidden;
    premise = the premise of the schedule-independence theorem (a liftover step writes nothing shared) is no longer
              evident from the source: interior mutability / statics in library code.  That is a broken correspondence, not
              by itself a violation: the check then searches for a concurrent run that differs from the sequential one."""
    direct, premise = [], []
    unsafe_tok = re.compile(r"\bunsafe\b")
    # set-once cells (OnceLock, LazyLock, OnceCell, lazy_static) are not in the list: get_or_init is linearizable and the cell never
    # changes afterwards, so a cache built on them answers under every schedule what it answers sequentially (and a wrong cache is
    # wrong sequentially, where the other checks see it); std::cell::OnceCell is !Sync and would fail the compile-time obligations
    mut_tok = re.compile(r"\b(UnsafeCell|Cell|RefCell|Mutex|RwLock|Atomic\w*|thread_local|static\s+mut)\b")
    srcdir = os.path.join(REPO, "src")
    for d, _, fs in os.walk(srcdir):
        if os.path.join(srcdir, "bin") in d:
            continue
        for f in fs:
            if not f.endswith(".rs"):
                continue
            p = os.path.join(d, f)
            for ln, line in enumerate(open(p, errors="replace"), 1):
                code = line.split("//")[0]
                if unsafe_tok.search(code):
                    direct.append("%s:%d: `unsafe` in library code: %s" % (os.path.relpath(p, REPO), ln, line.strip()[:120]))
                m = mut_tok.search(code)
                if m:
                    premise.append("%s:%d: `%s` in library code: %s" % (os.path.relpath(p, REPO), ln, m.group(1), line.strip()[:120]))
    env = dict(ENV)
    env["CARGO_TARGET_DIR"] = os.path.join(CACHE, "target-audit")
    with Lock("cargo-audit"):
        rc, log = run(["timeout", "900", "cargo", "rustc", "--offline", "--quiet", "-p", "chainfile", "--lib", "--", "-F", "unsafe_code"],
                      cwd=HARNESS_SRC, env=env, timeout=1000)
    if rc != 0:
        direct.append("the crate does not compile with unsafe_code forbidden:\n" + log[-3000:])
    return {"direct": direct, "premise": premise}


PRE = {"c18_static": c18_static}


# ------------------------------------------------------------------------------------------------
# findings, evidence
# ------------------------------------------------------------------------------------------------

def load_findings():
    p = os.path.join(ROOT, "known_findings.json")
    if not os.path.exists(p):
        return []
    return json.load(open(p))


def write_evidence(pid, ev):
    os.makedirs(os.path.join(ROOT, "evidence"), exist_ok=True)
    with open(os.path.join(ROOT, "evidence", pid + ".json"), "w") as f:
        json.dump(ev, f, indent=1, sort_keys=True)
        f.write("\n")
