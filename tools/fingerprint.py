#!/usr/bin/env python3
"""Records the sha256 of /repo's library sources in /verif/source_fingerprint.json.  Run by hand after /repo's HEAD changed (a fix:
commit) and the checks were re-validated on it; the checks only read the file (see cflib.source_changes)."""
import json
import os
import sys
sys.path.insert(0, os.path.dirname(os.path.abspath(__file__)))
import cflib

json.dump(cflib.source_fingerprint(), open(cflib.FINGERPRINT, "w"), indent=1, sort_keys=True)
print("wrote", cflib.FINGERPRINT)
