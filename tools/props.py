"""Per-property case generators and property oracles.

A *group* is a dict {family, oracle, params, cases}: a list of protocol case lines that belong together
plus the name of the oracle that decides the property itself on the implementation's outputs for those
cases (independently of the Coq model).  Groups are plain JSON, so a failing one is its own replay file."""
import random

import gen
from gen import U64, xtok, ival_tok, parse_ival, parse_pair, parse_lift

ORACLES = {}


def oracle(name):
    def deco(f):
        ORACLES[name] = f
        return f
    return deco


def group(family, oracle_name, cases, params=None, nontrivial=True):
    return {"family": family, "oracle": oracle_name, "params": params or {}, "cases": cases, "nontrivial": nontrivial}


@oracle("none")
def o_none(params, cases, outs):
    return None


@oracle("no_panic")
def o_no_panic(params, cases, outs):
    for c, o in zip(cases, outs):
        if "panic" in o.split(" ") or o.startswith("CRASH") or o == "TIMEOUT" or "panic" in o:
            return "the library panicked (or crashed) on: %s -> %s" % (c[:200], o[:200])
    return None


# ------------------------------------------------------------------------------------------------
# C15
# ------------------------------------------------------------------------------------------------

EDGE = [0, 1, 2, 3, U64 - 3, U64 - 2, U64 - 1, U64]


def pos_pool(rng):
    r = rng.random()
    if r < 0.45:
        return rng.choice(EDGE)
    if r < 0.85:
        return rng.randint(0, 40)
    return rng.randint(0, U64)


def mk_ival(ctg, strand, start, ln):
    """interval of ln bases starting at start in strand direction, or None if out of range"""
    end = start + ln if strand == "+" else start - ln
    if not (0 <= end <= U64):
        return None
    return (ctg, strand, start, end)


def rand_ival(rng, ctg, strand, ln=None):
    for _ in range(50):
        if ln is None:
            l2 = rng.choice([0, 1, 2, 3, rng.randint(0, 30), rng.randint(0, U64)])
        else:
            l2 = ln
        iv = mk_ival(ctg, strand, pos_pool(rng), l2)
        if iv:
            return iv
    return mk_ival(ctg, strand, 0 if strand == "+" else U64, ln or 0)


def meets(r, i):
    if r[1] == "+":
        return max(r[2], i[2]) <= min(r[3], i[3])
    return max(r[3], i[3]) <= min(r[2], i[2])


def gen_C15(rng, tier):
    n = 1500 if tier == "quick" else 40000
    groups = []
    for _ in range(n):
        rs, qs = rng.choice("+-"), rng.choice("+-")
        r = rand_ival(rng, "r", rs)
        ln = abs(r[3] - r[2])
        q = rand_ival(rng, rng.choice(["q", "r"]), qs, ln)
        if q is None or abs(q[3] - q[2]) != ln:
            continue
        kind = rng.random()
        if kind < 0.6:
            # clamp interval derived from the reference interval so that it usually meets it
            lo, hi = min(r[2], r[3]), max(r[2], r[3])
            cand = sorted({0, U64, lo, hi, max(lo - 1, 0), min(hi + 1, U64), min(lo + 1, U64), max(hi - 1, 0),
                           rng.randint(lo, hi), rng.randint(lo, hi), pos_pool(rng)})
            a, b = rng.choice(cand), rng.choice(cand)
            a, b = min(a, b), max(a, b)
            ctg = "r" if rng.random() < 0.93 else "other"
            st = rs if rng.random() < 0.93 else ("-" if rs == "+" else "+")
            iv = (ctg, st, a, b) if st == "+" else (ctg, st, b, a)
            case = "clamp %s %s %s" % (ival_tok(r), ival_tok(q), ival_tok(iv))
            nt = ctg == "r" and st == rs and meets(r, iv)
            groups.append(group("clamp-meets" if nt else "clamp-other", "c15_clamp", [case], nontrivial=nt))
        elif kind < 0.9:
            lo, hi = min(r[2], r[3]), max(r[2], r[3])
            p = rng.choice([lo, hi, max(lo - 1, 0), min(hi + 1, U64), rng.randint(lo, hi), pos_pool(rng)])
            ctg = "r" if rng.random() < 0.93 else "other"
            st = rs if rng.random() < 0.93 else ("-" if rs == "+" else "+")
            case = "plift %s %s %s:%s:%d" % (ival_tok(r), ival_tok(q), xtok(ctg), st, p)
            nt = ctg == "r" and st == rs and lo <= p <= hi
            groups.append(group("plift-inside" if nt else "plift-outside", "c15_plift", [case], nontrivial=nt))
        else:
            q2 = rand_ival(rng, "q", qs)
            case = "ptry %s %s" % (ival_tok(r), ival_tok(q2))
            groups.append(group("ptry", "c15_ptry", [case], nontrivial=abs(q2[3] - q2[2]) != ln))
    return groups


@oracle("c15_clamp")
def o_c15_clamp(params, cases, outs):
    t = cases[0].split(" ")
    r, q, iv = parse_ival(t[1]), parse_ival(t[2]), parse_ival(t[3])
    o = outs[0]
    if iv[0] != r[0]:
        return None if o == "err ctg" else "clamp to another contig must be an error, got %s" % o
    if iv[1] != r[1]:
        return None if o == "err strand" else "clamp to another strand must be an error, got %s" % o
    if not meets(r, iv):
        return None  # outside the property's quantifier
    if r[1] == "+":
        s, e = max(r[2], iv[2]), min(r[3], iv[3])
        o1, o2 = s - r[2], e - r[2]
    else:
        s, e = min(r[2], iv[2]), max(r[3], iv[3])
        o1, o2 = r[2] - s, r[2] - e
    exp = ((r[0], r[1], s, e), (q[0], q[1], gen.direct(q[1], q[2], o1), gen.direct(q[1], q[2], o2)))
    if not o.startswith("ok "):
        return "clamp of meeting intervals must succeed, got %s" % o
    got = parse_pair(o[3:])
    if got != exp:
        return "clamp returned %s, the intersection with the images of its ends is %s" % (got, exp)
    return None


@oracle("c15_plift")
def o_c15_plift(params, cases, outs):
    t = cases[0].split(" ")
    r, q = parse_ival(t[1]), parse_ival(t[2])
    cc, cs, cp = t[3].split(":")
    cc = bytes.fromhex(cc[1:]).decode("latin-1")
    cp = int(cp)
    lo, hi = min(r[2], r[3]), max(r[2], r[3])
    inside = cc == r[0] and cs == r[1] and lo <= cp <= hi
    o = outs[0]
    if not inside:
        return None if o == "none" else "a coordinate outside the reference interval lifted to %s" % o
    off = abs(cp - r[2])
    exp = "some %s:%s:%d" % (xtok(q[0].encode("latin-1")), q[1], gen.direct(q[1], q[2], off))
    return None if o == exp else "liftover gave %s, same-offset coordinate is %s" % (o, exp)


@oracle("c15_ptry")
def o_c15_ptry(params, cases, outs):
    t = cases[0].split(" ")
    r, q = parse_ival(t[1]), parse_ival(t[2])
    eq = abs(r[3] - r[2]) == abs(q[3] - q[2])
    o = outs[0]
    if eq:
        return None if o.startswith("ok ") else "equal lengths refused: %s" % o
    return None if o == "err counts" else "unequal lengths accepted: %s" % o


# ------------------------------------------------------------------------------------------------
# registry
# ------------------------------------------------------------------------------------------------

PROPS = {
    "C15": dict(props=["Props/C15.v"], profiles=["debug"], gen=gen_C15,
                rule="clamp/liftover/try_new calls on generated pairs: positions from {0..3, u64::MAX-3..u64::MAX} "
                     "(45%), 0..40 (40%), uniform u64 (15%); lengths 0,1,2,3,small,huge; all four strand pairs; clamp "
                     "intervals drawn around the reference ends. A case is non-trivial when the clamp interval meets the "
                     "reference interval on the same contig and strand / the lifted coordinate lies inside / the lengths differ; "
                     "distinct = distinct case lines."),
}
