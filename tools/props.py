"""Per-property case generators and property oracles.

A *group* is a dict {family, oracle, params, cases}: a list of protocol case lines that belong together
plus the name of the oracle that decides the property itself on the implementation's outputs for those
cases (independently of the Coq model).  Groups are plain JSON, so a failing one is its own replay file."""
import random

import gen
from gen import U64, xtok, ival_tok, parse_ival, parse_pair, parse_lift

ORACLES = {}


def oracle(name):
    def deco(f):
        ORACLES[name] = f
        return f
    return deco


def group(family, oracle_name, cases, params=None, nontrivial=True):
    return {"family": family, "oracle": oracle_name, "params": params or {}, "cases": cases, "nontrivial": nontrivial}


@oracle("none")
def o_none(params, cases, outs):
    return None


@oracle("no_panic")
def o_no_panic(params, cases, outs):
    for c, o in zip(cases, outs):
        if "panic" in o.split(" ") or o.startswith("CRASH") or o == "TIMEOUT" or "panic" in o:
            return "the library panicked (or crashed) on: %s -> %s" % (c[:200], o[:200])
    return None


# ------------------------------------------------------------------------------------------------
# C15
# ------------------------------------------------------------------------------------------------

EDGE = [0, 1, 2, 3, U64 - 3, U64 - 2, U64 - 1, U64]


def pos_pool(rng):
    r = rng.random()
    if r < 0.45:
        return rng.choice(EDGE)
    if r < 0.85:
        return rng.randint(0, 40)
    return rng.randint(0, U64)


def mk_ival(ctg, strand, start, ln):
    """interval of ln bases starting at start in strand direction, or None if out of range"""
    end = start + ln if strand == "+" else start - ln
    if not (0 <= end <= U64):
        return None
    return (ctg, strand, start, end)


def rand_ival(rng, ctg, strand, ln=None):
    for _ in range(50):
        if ln is None:
            l2 = rng.choice([0, 1, 2, 3, rng.randint(0, 30), rng.randint(0, U64)])
        else:
            l2 = ln
        iv = mk_ival(ctg, strand, pos_pool(rng), l2)
        if iv:
            return iv
    return mk_ival(ctg, strand, 0 if strand == "+" else U64, ln or 0)


def meets(r, i):
    if r[1] == "+":
        return max(r[2], i[2]) <= min(r[3], i[3])
    return max(r[3], i[3]) <= min(r[2], i[2])


def gen_C15(rng, tier):
    n = 1500 if tier == "quick" else 120000
    groups = []
    for _ in range(n):
        rs, qs = rng.choice("+-"), rng.choice("+-")
        r = rand_ival(rng, "r", rs)
        ln = abs(r[3] - r[2])
        q = rand_ival(rng, rng.choice(["q", "r"]), qs, ln)
        if q is None or abs(q[3] - q[2]) != ln:
            continue
        kind = rng.random()
        if kind < 0.6:
            # clamp interval derived from the reference interval so that it usually meets it
            lo, hi = min(r[2], r[3]), max(r[2], r[3])
            cand = sorted({0, U64, lo, hi, max(lo - 1, 0), min(hi + 1, U64), min(lo + 1, U64), max(hi - 1, 0),
                           rng.randint(lo, hi), rng.randint(lo, hi), pos_pool(rng)})
            a, b = rng.choice(cand), rng.choice(cand)
            a, b = min(a, b), max(a, b)
            ctg = "r" if rng.random() < 0.93 else "other"
            st = rs if rng.random() < 0.93 else ("-" if rs == "+" else "+")
            iv = (ctg, st, a, b) if st == "+" else (ctg, st, b, a)
            case = "clamp %s %s %s" % (ival_tok(r), ival_tok(q), ival_tok(iv))
            nt = ctg == "r" and st == rs and meets(r, iv)
            groups.append(group("clamp-meets" if nt else "clamp-other", "c15_clamp", [case], nontrivial=nt))
        elif kind < 0.9:
            lo, hi = min(r[2], r[3]), max(r[2], r[3])
            p = rng.choice([lo, hi, max(lo - 1, 0), min(hi + 1, U64), rng.randint(lo, hi), pos_pool(rng)])
            ctg = "r" if rng.random() < 0.93 else "other"
            st = rs if rng.random() < 0.93 else ("-" if rs == "+" else "+")
            case = "plift %s %s %s:%s:%d" % (ival_tok(r), ival_tok(q), xtok(ctg), st, p)
            nt = ctg == "r" and st == rs and lo <= p <= hi
            groups.append(group("plift-inside" if nt else "plift-outside", "c15_plift", [case], nontrivial=nt))
        else:
            q2 = rand_ival(rng, "q", qs)
            case = "ptry %s %s" % (ival_tok(r), ival_tok(q2))
            groups.append(group("ptry", "c15_ptry", [case], nontrivial=abs(q2[3] - q2[2]) != ln))
    if tier == "thorough":
        groups += c15_exhaustive_small()
    return groups


def c15_exhaustive_small():
    """small scope, enumerated completely, at both ends of the u64 range: every pair of equal-length intervals with positions in a
    window of 5 (reference) / 4 (query), all four strand combinations, same and other query contig, x every coordinate of the
    window (plift) and every interval of the window on both strands (clamp)"""
    out = []
    for base in (0, U64 - 4):
        W = [base + k for k in range(5)]
        ivs = {"+": [("r", "+", a, b) for a in W for b in W if a <= b], "-": [("r", "-", b, a) for a in W for b in W if a <= b]}
        for rs in "+-":
            for r in ivs[rs]:
                ln = abs(r[3] - r[2])
                for qs in "+-":
                    for qa in W[:4]:
                        q = mk_ival("q", qs, qa if qs == "+" else qa + ln, ln) if (qa + ln <= U64) else None
                        if q is None or abs(q[3] - q[2]) != ln:
                            continue
                        for p in W:
                            for st in "+-":
                                lo, hi = min(r[2], r[3]), max(r[2], r[3])
                                case = "plift %s %s %s:%s:%d" % (ival_tok(r), ival_tok(q), xtok("r"), st, p)
                                out.append(group("exhaustive-plift", "c15_plift", [case], nontrivial=(st == rs and lo <= p <= hi)))
                        for st in "+-":
                            for iv in ivs[st]:
                                case = "clamp %s %s %s" % (ival_tok(r), ival_tok(q), ival_tok(iv))
                                out.append(group("exhaustive-clamp", "c15_clamp", [case], nontrivial=(st == rs and meets(r, iv))))
    return out


@oracle("c15_clamp")
def o_c15_clamp(params, cases, outs):
    t = cases[0].split(" ")
    r, q, iv = parse_ival(t[1]), parse_ival(t[2]), parse_ival(t[3])
    o = outs[0]
    if iv[0] != r[0]:
        return None if o.startswith("err ") else "clamp to another contig must be an error, got %s" % o
    if iv[1] != r[1]:
        return None if o.startswith("err ") else "clamp to another strand must be an error, got %s" % o
    if not meets(r, iv):
        return None  # outside the property's quantifier
    if r[1] == "+":
        s, e = max(r[2], iv[2]), min(r[3], iv[3])
        o1, o2 = s - r[2], e - r[2]
    else:
        s, e = min(r[2], iv[2]), max(r[3], iv[3])
        o1, o2 = r[2] - s, r[2] - e
    exp = ((r[0], r[1], s, e), (q[0], q[1], gen.direct(q[1], q[2], o1), gen.direct(q[1], q[2], o2)))
    if not o.startswith("ok "):
        return "clamp of meeting intervals must succeed, got %s" % o
    got = parse_pair(o[3:])
    if got != exp:
        return "clamp returned %s, the intersection with the images of its ends is %s" % (got, exp)
    return None


@oracle("c15_plift")
def o_c15_plift(params, cases, outs):
    t = cases[0].split(" ")
    r, q = parse_ival(t[1]), parse_ival(t[2])
    cc, cs, cp = t[3].split(":")
    cc = bytes.fromhex(cc[1:]).decode("latin-1")
    cp = int(cp)
    lo, hi = min(r[2], r[3]), max(r[2], r[3])
    inside = cc == r[0] and cs == r[1] and lo <= cp <= hi
    o = outs[0]
    if not inside:
        return None if o == "none" else "a coordinate outside the reference interval lifted to %s" % o
    off = abs(cp - r[2])
    exp = "some %s:%s:%d" % (xtok(q[0].encode("latin-1")), q[1], gen.direct(q[1], q[2], off))
    return None if o == exp else "liftover gave %s, same-offset coordinate is %s" % (o, exp)


@oracle("c15_ptry")
def o_c15_ptry(params, cases, outs):
    t = cases[0].split(" ")
    r, q = parse_ival(t[1]), parse_ival(t[2])
    eq = abs(r[3] - r[2]) == abs(q[3] - q[2])
    o = outs[0]
    if eq:
        return None if o.startswith("ok ") else "equal lengths refused: %s" % o
    return None if o.startswith("err ") else "unequal lengths accepted: %s" % o


# ------------------------------------------------------------------------------------------------
# text helpers shared by the oracles (an independent reading of the accepted syntax)
# ------------------------------------------------------------------------------------------------
import re

_U64RE = re.compile(rb"\+?[0-9]+\Z")


def py_u64(b):
    """u64::from_str: optional '+', at least one ASCII digit, value <= u64::MAX"""
    if isinstance(b, str):
        b = b.encode("latin-1")
    if not _U64RE.match(b):
        return None
    v = int(b.lstrip(b"+"))
    return v if v <= U64 else None


NUM_POOL = ["0", "1", "2", "7", "10", "18446744073709551615", "18446744073709551616", "18446744073709551614",
            "+5", "007", "+0", "-1", "", " 3", "3 ", "1e3", "0x10", "99999999999999999999999", "+", "++1", "５",
            "4900.0", "1e+06", "-0", "0.0", "1_000", "inf", "NaN", "9007199254740993", "0b1", "١"]


def rand_num_text(rng, valid_bias=0.8):
    if rng.random() < valid_bias:
        r = rng.random()
        if r < 0.5:
            return str(rng.randint(0, 50))
        if r < 0.7:
            return str(rng.choice([0, 1, U64, U64 - 1, 2 ** 63, 2 ** 32]))
        if r < 0.85:
            return rng.choice(["+", "0", "00"]) + str(rng.randint(0, 50))
        return str(rng.randint(0, U64))
    return rng.choice(NUM_POOL)


# ------------------------------------------------------------------------------------------------
# C14
# ------------------------------------------------------------------------------------------------

def gen_C14(rng, tier):
    n = 1500 if tier == "quick" else 90000
    groups = []
    for _ in range(n):
        k = rng.random()
        if k < 0.45:
            name = rng.choice(["seq0", "a", "", "chr 1", "x\ty"])
            size, start, end = rand_num_text(rng, 0.9), rand_num_text(rng, 0.9), rand_num_text(rng, 0.9)
            if rng.random() < 0.5:
                # related numbers: around start <= end <= size
                a = rng.choice([0, 1, 5, U64 - 2, rng.randint(0, 100)])
                b = a + rng.choice([0, 1, 3])
                c = b + rng.choice([-1, 0, 0, 1, 2]) if rng.random() < 0.8 else rng.choice([0, U64])
                start, end, size = str(a), str(min(b, U64)), str(max(0, min(c, U64)))
                if rng.random() < 0.15:
                    start, end = end, start
            strand = rng.choice(["+", "-", "+", "-", "?", "", "+-"])
            case = "seq %s %s %s %s %s" % tuple(xtok(x.encode("utf-8")) for x in (name, size, strand, start, end))
            groups.append(group("seq", "c14_seq", [case]))
        elif k < 0.6:
            size = rng.choice([0, 1, U64, rng.randint(0, 99)])
            dt = rng.choice(["-", "0", "5", str(U64)])
            dq = rng.choice(["-", "0", "7", str(U64)])
            kind = rng.choice("TN")
            groups.append(group("drec", "c14_drec", ["drec %d %s %s %s" % (size, dt, dq, kind)]))
        else:
            line = gen_line_text(rng)
            groups.append(group("line", "c14_line", ["pline " + xtok(line)]))
    if tier == "thorough":
        # small scope, enumerated completely, at both ends of the u64 range: every (size, strand, start, end) in a window, and
        # every (size, dt, dq, kind) offered to the record constructor
        for base in (0, U64 - 5):
            W = [str(base + k) for k in range(6)]
            for size in W + ["0", str(U64)]:
                for strand in ("+", "-", "?"):
                    for a in W:
                        for b in W:
                            case = "seq %s %s %s %s %s" % tuple(xtok(x.encode("utf-8")) for x in ("n", size, strand, a, b))
                            groups.append(group("exhaustive-seq", "c14_seq", [case]))
        for size in (0, 1, 7, U64):
            for dt in ("-", "0", "5", str(U64)):
                for dq in ("-", "0", "7", str(U64)):
                    for kind in "TN":
                        groups.append(group("exhaustive-drec", "c14_drec", ["drec %d %s %s %s" % (size, dt, dq, kind)]))
    return groups


def gen_header_text(rng, corrupt=0.3):
    big = [2 ** 53 + 1, 2 ** 63 - 1, 2 ** 63 + 1, U64, U64 - 1, 10 ** 19, 9007199254740993]
    c = dict(score=rng.choice(big) if rng.random() < 0.2 else rng.randint(0, 10 ** 6), tname=rng.choice(gen.NAMES), tsize=rng.randint(0, 200),
             tstrand=rng.choice("+-"), qname=rng.choice(gen.NAMES), qsize=rng.randint(0, 200), qstrand=rng.choice("+-"),
             id=rng.choice(big) if rng.random() < 0.2 else rng.randint(0, 999))
    c["tend"] = rng.randint(0, c["tsize"]); c["tstart"] = rng.randint(0, c["tend"])
    c["qend"] = rng.randint(0, c["qsize"]); c["qstart"] = rng.randint(0, c["qend"])
    if rng.random() < 0.2:
        c["tsize"] = c["tend"] = U64
    if corrupt > 0 and rng.random() < 0.25:
        # boundary headers: end around size, size+start; start around 0, size (accepted iff start <= end <= size on both sides)
        for side in "tq":
            size = rng.choice([0, 1, 5, 100, U64 - 1, U64])
            start = rng.choice([0, 1, size // 2, size])
            end = rng.choice([start, max(size - 1, 0), size, size + 1, size + start, size + start + 1, max(start - 1, 0)])
            c[side + "size"], c[side + "start"], c[side + "end"] = size, min(start, U64), min(end, U64)
        return gen.header_line(c).encode("utf-8")
    fields = gen.header_line(c).split(" ")
    if rng.random() < corrupt:
        m = rng.random()
        i = rng.randrange(len(fields))
        if m < 0.35:
            fields[i] = rng.choice(NUM_POOL + ["+", "-", "chain", "Chain"])
        elif m < 0.5:
            del fields[i]
        elif m < 0.6:
            fields.insert(i, rng.choice(["", "0", "x"]))
        elif m < 0.75:
            j = rng.choice([3, 5, 6, 8, 10, 11])
            fields[j] = str(max(0, int(fields[j]) + rng.choice([-2, -1, 1, 2, 1000]))) if fields[j].isdigit() else fields[j]
        elif m < 0.85:
            fields[rng.choice([1, 1, 3, 5, 6, 8, 10, 11, 12, 12])] = rand_num_text(rng, 0.4)
        elif m < 0.93:
            return " ".join(fields).replace(" ", rng.choice(["\t", "  ", " "]), 1).encode("utf-8")
        else:
            d = rng.choice([" ", " ", "\t", "  "])
            return ((" ".join(fields) + d) if rng.random() < 0.7 else (d + " ".join(fields))).encode("utf-8")
    return " ".join(fields).encode("utf-8")


def gen_data_text(rng, corrupt=0.3):
    if rng.random() < 0.5:
        fields = [rand_num_text(rng, 1 - corrupt)]
    else:
        fields = [rand_num_text(rng, 1 - corrupt / 2) for _ in range(3)]
    if rng.random() < corrupt / 2:
        fields = fields + [rand_num_text(rng)] if rng.random() < 0.5 else fields[:2]
    sep = "\t" if rng.random() > corrupt / 3 else rng.choice([" ", "\t\t", ","])
    text = sep.join(fields)
    if rng.random() < corrupt / 3:
        # a stray delimiter at either end is an extra (empty) field, not padding
        d = rng.choice(["\t", "\t", " ", "\t\t", "\t "])
        text = text + d if rng.random() < 0.7 else d + text
    return text.encode("utf-8")


def gen_line_text(rng):
    r = rng.random()
    if r < 0.5:
        return gen_header_text(rng)
    if r < 0.95:
        return gen_data_text(rng)
    return rng.choice([b"", b"chain", b"chainsaw 1 2", b"\t", b" ", b"chain 1"])


def parse_seq_out(tok):
    c, size, strand, start, end = tok.split(":")
    return dict(name=bytes.fromhex(c[1:]), size=int(size), strand=strand, start=int(start), end=int(end))


@oracle("c14_seq")
def o_c14_seq(params, cases, outs):
    t = cases[0].split(" ")
    name, size, strand, start, end = [bytes.fromhex(x[1:]) for x in t[1:6]]
    o = outs[0]
    vs, va, vb = py_u64(size), py_u64(start), py_u64(end)
    ok = vs is not None and strand in (b"+", b"-") and va is not None and vb is not None and va <= vb
    if not ok:
        return None if o.split(" ")[0] == "err" else "constructor accepted an invalid sequence: %s" % o
    if not o.startswith("ok "):
        return "constructor refused a valid sequence (start<=end): %s" % o
    parts = o.split(" ")
    got = parse_seq_out(parts[1])
    if (got["name"], got["size"], got["strand"], got["start"], got["end"]) != (name, vs, strand.decode(), va, vb):
        return "accessors disagree with the arguments: %s" % o
    iv = " ".join(parts[2:])
    st = strand.decode()
    if vb <= vs:
        exp = "ok %s:%s:%d:%d" % (xtok(name), st, va if st == "+" else vs - va, vb if st == "+" else vs - vb)
        return None if iv == exp else "interval() gave %s, expected %s" % (iv, exp)
    if st == "-":
        return None if iv.startswith("err ") else "end>size on '-' must be an error, got %s" % iv
    exp = "ok %s:+:%d:%d" % (xtok(name), va, vb)
    return None if (iv == exp or iv.startswith("err ")) else "end>size on '+' must be an error or the literal interval, got %s" % iv


@oracle("c14_drec")
def o_c14_drec(params, cases, outs):
    _, size, dt, dq, kind = cases[0].split(" ")
    o = outs[0]
    good = (dt == "-" and dq == "-") if kind == "T" else (dt != "-" and dq != "-")
    if not good:
        return None if o.split(" ")[0] == "err" else "record constructor accepted gaps inconsistent with the kind: %s" % o
    exp = "ok %s/%s/%s/%s" % (size, dt, dq, kind)
    if not o.startswith(exp + " "):
        return "record constructor gave %s, expected %s" % (o, exp)
    txt = size if kind == "T" else "%s\t%s\t%s" % (size, dt, dq)
    return None if o == exp + " " + xtok(txt.encode()) else "record prints as %s" % o


@oracle("c14_line")
def o_c14_line(params, cases, outs):
    line = bytes.fromhex(cases[0].split(" ")[1][1:])
    o = outs[0]
    if o == "panic":
        return "parsing a line panicked"
    if o.startswith("hdr:"):
        parts = o.split(":")
        # hdr:score/ref/qry/id with ref = x..:size:strand:start:end
        body = o[4:o.rindex(":")]
        score, r, q, hid = body.split("/")
        for side in (r, q):
            sq = parse_seq_out(side)
            if sq["strand"] not in "+-" or not (0 <= sq["start"] <= sq["end"] <= sq["size"] <= U64):
                return "accepted header violates 0<=start<=end<=size: %s" % o
        if not line.startswith(b"chain ") or len(line.split(b" ")) != 13:
            return "accepted a header line that is not 13 space-separated fields after 'chain': %r" % line
    elif o.startswith("dat:"):
        body = o[4:o.rindex(":")]
        size, dt, dq, kind = body.split("/")
        nf = len(line.split(b"\t"))
        if kind == "T" and not (dt == "-" and dq == "-" and nf == 1):
            return "terminating record with gaps or field count != 1: %s" % o
        if kind == "N" and not (dt != "-" and dq != "-" and nf == 3):
            return "non-terminating record without gaps or field count != 3: %s" % o
    return None


# ------------------------------------------------------------------------------------------------
# C04 (and the step-through half of C07)
# ------------------------------------------------------------------------------------------------

def rec_tok(b):
    return "%d/%d/%d/N" % b if len(b) == 3 else "%d/-/-/T" % b[0]


def gen_step_case(rng):
    """a header and a record list: mostly adding up, sometimes short/long by k on either side, with zeros,
    values that overflow on '+' and run below 0 on '-'"""
    big = rng.random() < 0.25
    shape = rng.choice(["one", "few", "few", "many"])
    blocks = gen.gen_blocks(rng, shape)
    if rng.random() < 0.3:
        blocks = [((0,) + b[1:]) if rng.random() < 0.3 else b for b in blocks]
    tn, qn = ("r", "q") if rng.random() < 0.5 else (rng.choice(gen.NAMES), rng.choice(gen.NAMES))
    c = gen.mk_chain(rng, tn, rng.randint(1, 300), qn, rng.randint(1, 300), rng.choice("+-"), rng.choice("+-"), blocks, 1,
                     big=rng.choice([U64, 2 ** 63, U64 - 1]) if big else None)
    mode = rng.random()
    fam = "adds-up"
    if mode < 0.45:
        pass
    elif mode < 0.75:
        fam = "off-by-k"
        k = rng.choice([1, 1, 2, 5, 1000])
        side = rng.choice(["tstart", "tend", "qstart", "qend", "block", "both-ends", "both-ends"])
        if side == "both-ends":
            # both declared ends short (or long) by the same amount - e.g. exactly the last block, so that the records before it
            # already land on both ends
            d = rng.choice([blocks[-1][0], blocks[-1][0], k, -k])
            c["tend"] = min(max(c["tend"] - d, c["tstart"]), c["tsize"])
            c["qend"] = min(max(c["qend"] - d, c["qstart"]), c["qsize"])
            side = "none"
        if side == "none":
            pass
        elif side == "block":
            i = rng.randrange(len(blocks))
            b = list(blocks[i])
            j = rng.randrange(len(b))
            b[j] = max(0, b[j] + rng.choice([-k, k]))
            blocks = blocks[:i] + [tuple(b)] + blocks[i + 1:]
            c["blocks"] = blocks
        else:
            v = c[side] + rng.choice([-k, k])
            lo = 0
            hi = c["tsize" if side[0] == "t" else "qsize"]
            c[side] = min(max(v, lo), hi)
            if c["tstart"] > c["tend"]:
                c["tstart"] = c["tend"]
            if c["qstart"] > c["qend"]:
                c["qstart"] = c["qend"]
    elif mode < 0.87:
        fam = "overflow"
        i = rng.randrange(len(blocks))
        b = list(blocks[i])
        j = rng.randrange(len(b))
        b[j] = min(U64, rng.choice([U64, U64 - 1, 2 ** 63, U64 - c["tend"], U64 - c["tend"] + 1, c["tsize"] + 1]))
        blocks = blocks[:i] + [tuple(b)] + blocks[i + 1:]
        c["blocks"] = blocks
    elif mode < 0.95 and len(blocks) >= 2:
        fam = "sum-overflow"  # size + gap exceeds u64::MAX although each fits; at the strand origin or later
        i = 0 if rng.random() < 0.6 else rng.randrange(len(blocks) - 1)
        size = rng.choice([1, 5, 2 ** 63, U64 - 1, U64])
        over = U64 - size + rng.choice([1, 1, 2, 1000])
        over = min(over, U64)
        b = (size, over, rng.choice([0, 1])) if rng.random() < 0.5 else (size, rng.choice([0, 1]), over)
        blocks = blocks[:i] + [b] + blocks[i + 1:]
        c["blocks"] = blocks
        if rng.random() < 0.7:
            # put the chain at the strand origin: start 0 on '+', or a contig of size u64::MAX on '-'
            for side in "tq":
                c[side + "size"] = U64
                c[side + "start"] = 0
                c[side + "end"] = rng.choice([U64, c[side + "end"]])
    else:
        fam = "odd-kinds"  # terminating records in the middle, non-terminating at the end
        blocks = [((b[0],) if rng.random() < 0.3 else b) for b in blocks[:-1]] + [rng.choice([blocks[-1], (blocks[-1][0], 0, 0)])]
        c["blocks"] = blocks
    return c, fam


def expected_pairs(c):
    """closed-form pairs of the records of c in API coordinates (unbounded integers)"""
    out = []
    t, q = c["tstart"], c["qstart"]
    for b in c["blocks"]:
        n = b[0]
        rs, re_ = gen.api_pos(c["tstrand"], c["tsize"], t), gen.api_pos(c["tstrand"], c["tsize"], t + n)
        qs, qe = gen.api_pos(c["qstrand"], c["qsize"], q), gen.api_pos(c["qstrand"], c["qsize"], q + n)
        out.append(((c["tname"], c["tstrand"], rs, re_), (c["qname"], c["qstrand"], qs, qe)))
        t += n + (b[1] if len(b) == 3 else 0)
        q += n + (b[2] if len(b) == 3 else 0)
    return out, t, q


def gen_C04(rng, tier):
    n = 1200 if tier == "quick" else 75000
    groups = []
    for _ in range(n):
        c, fam = gen_step_case(rng)
        case = "step %s %s" % (xtok(gen.header_line(c).encode("latin-1")), ",".join(rec_tok(b) for b in c["blocks"]))
        groups.append(group(fam, "c04_step", [case], params={"chain": c}))
    if tier == "thorough":
        groups += c04_exhaustive_small()
    return groups


def c04_exhaustive_small():
    """small scope, enumerated completely: 1-3 records with sizes in {0,1,2} and gaps in {0,1}^2, all four strand pairs, chain start
    0 or 1 on each side, declared extents exact or off by one on either side"""
    import itertools
    out = []
    gaps = [(0, 0), (0, 1), (1, 0), (1, 1)]
    for nb in (1, 2, 3):
        for szs in itertools.product((0, 1, 2), repeat=nb):
            for gs in itertools.product(gaps, repeat=nb - 1):
                blocks = [(szs[k],) + gs[k] for k in range(nb - 1)] + [(szs[-1],)]
                tlen = sum(b[0] + (b[1] if len(b) == 3 else 0) for b in blocks)
                qlen = sum(b[0] + (b[2] if len(b) == 3 else 0) for b in blocks)
                for ts, qs, t0, q0 in itertools.product("+-", "+-", (0, 1), (0, 1)):
                    for dt_, dq_ in ((0, 0), (1, 0), (0, 1), (-1, 0), (0, -1), (-1, -1), (1, 1), (-2, -2)):
                        tend, qend = t0 + tlen + dt_, q0 + qlen + dq_
                        if tend < t0 or qend < q0:
                            continue
                        c = dict(score=0, tname="r", tsize=max(tend, t0 + tlen), tstrand=ts, tstart=t0, tend=tend,
                                 qname="q", qsize=max(qend, q0 + qlen) + 1, qstrand=qs, qstart=q0, qend=qend, id=1, blocks=blocks)
                        case = "step %s %s" % (xtok(gen.header_line(c).encode("latin-1")), ",".join(rec_tok(b) for b in blocks))
                        out.append(group("exhaustive-small", "c04_step", [case], params={"chain": c}))
    return out


@oracle("c04_step")
def o_c04_step(params, cases, outs):
    c = params["chain"]
    c["blocks"] = [tuple(b) for b in c["blocks"]]
    o = outs[0]
    if o in ("badcase", "badrec"):
        return "harness could not build the section: %s" % o
    items = o.split(" ")
    if items[-1] != "end":
        return "the step-through did not end within the cap: ...%s" % o[-120:]
    items = items[:-1]
    n = len(c["blocks"])
    if len(items) > n + 1:
        return "more than records+1 items (%d > %d)" % (len(items), n + 1)
    exp, t, q = expected_pairs(c)
    adds_up = (t == c["tend"] and q == c["qend"])
    errs = [i for i, it in enumerate(items) if it.startswith("E(")]
    if errs and errs[0] != len(items) - 1:
        return "items after an error: %s" % o[:300]
    if adds_up != (not errs):
        return "records %s to both extents but the run %s" % ("add up" if adds_up else "do not add up", "reported an error" if errs else "completed")
    for k, it in enumerate(items):
        if it.startswith("P("):
            body = it[2:-1]
            ptxt, rtxt = body.split(";")
            if rtxt != rec_tok(c["blocks"][k]):
                return "pair %d is accompanied by record %s, expected %s" % (k, rtxt, rec_tok(c["blocks"][k]))
            got = parse_pair(ptxt)
            if got != exp[k]:
                return "pair %d is %s, the records and header dictate %s" % (k, got, exp[k])
    if not errs and len(items) != n:
        return "an error-free run must yield one pair per record"
    return None


# ------------------------------------------------------------------------------------------------
# C05 / C07 (sections)
# ------------------------------------------------------------------------------------------------

def gen_line_seq(rng, maxlen=12):
    """a sequence over {B,H,N,T,J,U} with texts; mostly grammatical"""
    n = rng.randint(0, maxlen)
    kinds = []
    if rng.random() < 0.6:
        # grammatical skeleton with a few mutations
        while len(kinds) < n:
            kinds += ["B"] * rng.choice([0, 0, 1, 2])
            kinds.append("H")
            kinds += ["N"] * rng.choice([0, 1, 2, 3])
            kinds.append("T")
        kinds = kinds[:n] if rng.random() < 0.4 else kinds
        for _ in range(rng.choice([0, 0, 1, 1, 2])):
            if kinds:
                i = rng.randrange(len(kinds))
                m = rng.random()
                if m < 0.4:
                    kinds[i] = rng.choice("BHNTJU")
                elif m < 0.7:
                    del kinds[i]
                else:
                    kinds.insert(i, rng.choice("BHNTJ"))
    else:
        kinds = [rng.choice("BHNTJ") for _ in range(n)]
    texts = []
    for k in kinds:
        if k == "B":
            texts.append(b"")
        elif k == "H":
            texts.append(gen_header_text(rng, corrupt=0))
        elif k == "N":
            texts.append(("%d\t%d\t%d" % (rng.randint(0, 30), rng.randint(0, 9), rng.randint(0, 9))).encode())
        elif k == "T":
            texts.append(("%d" % rng.randint(0, 30)).encode())
        elif k == "J":
            texts.append(rng.choice([b"junk", b"3\t4", b"chain 1 2", b"1\t2\t3\t4", b"-5", b"chainx", b" ", b"3\t\t4", b"x\ty\tz",
                                     # carriage returns that are NOT part of a CRLF terminator: the line keeps them and is unparsable
                                     b"\r\r", b"7\r\r", b"\r7", b"7\r8", b"3\t1\t2\r\r"]))
        else:
            texts.append(rng.choice([b"\xff\xfe", b"3\t\xc0\xaf\t1", b"\xed\xa0\x80", b"ok\xf5"]))
    return kinds, texts


def py_sections_spec(kinds, texts, eol="lf", final_nl=True):
    """the grammar: items up to and including the first error, as (tag, detail)"""
    out = []
    cur = None
    for idx, (k, t) in enumerate(zip(kinds, texts)):
        if k == "U":
            out.append(("E", "utf8")); return out
        if k == "J":
            if t.endswith(b"\r") and eol == "lf" and (final_nl or idx < len(kinds) - 1):
                t = t[:-1]   # followed by LF (sections_case sees to that) the last CR belongs to the terminator; before CRLF it stays
            out.append(("E", "badline:" + ("h" if t.startswith(b"chain") else "d") + ":" + xtok(t))); return out
        if k == "B":
            if cur is not None:
                out.append(("E", "blank:%d" % (idx + 1))); return out
        elif k == "H":
            if cur is not None:
                out.append(("E", "hdrin")); return out
            cur = [t]
        else:
            if cur is None:
                out.append(("E", "databetween")); return out
            cur.append(t)
            if k == "T":
                out.append(("S", cur)); cur = None
    if cur is not None:
        out.append(("E", "abrupt"))
    return out


def sections_case(rng, kinds, texts):
    eol = b"\n"
    data = eol.join(texts) + (eol if (texts and rng.random() < 0.7) else b"")
    if texts and texts[-1] == b"" and not data.endswith(b"\n\n") and len(texts) > 0:
        # a final blank line only exists if it is terminated
        data = eol.join(texts) + eol
    return "sections " + gen.src_tok(data), data


def gen_C05(rng, tier):
    n = 1500 if tier == "quick" else 90000
    groups = []
    for _ in range(n):
        kinds, texts = gen_line_seq(rng)
        case, data = sections_case(rng, kinds, texts)
        fnl = data.endswith(b"\n")
        has_err = any(t == "E" for t, _ in py_sections_spec(kinds, texts, "lf", fnl))
        groups.append(group("with-error" if has_err else "error-free", "c05_sections", [case],
                            params={"kinds": kinds, "texts": [t.hex() for t in texts], "final_nl": fnl}, nontrivial=len(kinds) > 1))
        if rng.random() < 0.25 and texts:
            # the same lines CRLF-terminated and delivered in pieces (1 byte at a time, two pieces, random pieces): the line
            # sequence is what the grammar is about, not how the bytes arrive
            data2 = b"\r\n".join(texts) + b"\r\n"
            chunks = gen.composition(rng, data2, rng.choice(["bytes", "two", "rand", "rand"]))
            groups.append(group("crlf-chunked", "c05_sections", ["sections " + gen.src_tok(data2, chunks)],
                                params={"kinds": kinds, "texts": [t.hex() for t in texts], "eol": "crlf"}, nontrivial=len(kinds) > 1))
    if tier == "thorough":
        # exhaustive small scope: all strings over {B,H,N,T,J} up to length 6
        import itertools
        fixed = {"B": b"", "H": b"chain 0 a 9 + 0 9 b 9 - 0 9 1", "N": b"3\t1\t2", "T": b"4", "J": b"junk"}
        for L in range(0, 7):
            for ks in itertools.product("BHNTJ", repeat=L):
                texts = [fixed[k] for k in ks]
                data = b"\n".join(texts) + (b"\n" if texts else b"")
                groups.append(group("exhaustive<=6", "c05_sections", ["sections " + gen.src_tok(data)],
                                    params={"kinds": list(ks), "texts": [t.hex() for t in texts]}, nontrivial=L > 1))
    return groups


def split_items(o):
    """split a sections output into items; S(...) bodies contain no spaces"""
    return o.split(" ")


@oracle("c05_sections")
def o_c05_sections(params, cases, outs):
    kinds = params["kinds"]
    texts = [bytes.fromhex(t) for t in params["texts"]]
    o = outs[0]
    if o == "panic":
        return "the section iterator panicked"
    items = split_items(o)
    if items[-1] != "end":
        return "the section iterator did not end (cap reached) on %d lines" % len(kinds)
    items = items[:-1]
    if len(items) > len(kinds) + 1:
        return "more items (%d) than lines+1 (%d)" % (len(items), len(kinds) + 1)
    exp = py_sections_spec(kinds, texts, params.get("eol", "lf"), params.get("final_nl", True))
    # prefix up to and including the first error
    got = []
    for it in items:
        got.append(it)
        if it.startswith("E("):
            break
    if len(got) != len(exp):
        return "up to its first error the iterator yielded %d items, the grammar has %d: %s" % (len(got), len(exp), o[:300])
    for g, (tag, d) in zip(got, exp):
        if tag == "S":
            if not g.startswith("S("):
                return "expected a section, got %s" % g[:120]
            nrec = len(g[2:-1].split(";")[1].split(","))
            if nrec != len(d) - 1:
                return "section with %d records, the input has %d" % (nrec, len(d) - 1)
            recs = g[2:-1].split(";")[1].split(",")
            if not recs[-1].endswith("/T") or any(r.endswith("/T") for r in recs[:-1]):
                return "the last and only the last record must be terminating: %s" % g[:200]
            for r, txt in zip(recs, d[1:]):
                f = txt.split(b"\t")
                want = "%d/%s/%s/%s" % (int(f[0]), f[1].decode() if len(f) == 3 else "-", f[2].decode() if len(f) == 3 else "-", "N" if len(f) == 3 else "T")
                if r != want:
                    return "record %s does not match input line %r" % (r, txt)
        else:
            if not g.startswith("E("):
                return "expected error %s, got %s" % (d, g[:120])
            kind = g[2:-1]
            if d in ("hdrin", "databetween"):
                if not (kind == d or kind.startswith(d + ":")):
                    return "expected error kind %s, got %s" % (d, kind[:80])
            elif kind != d:
                return "expected error %s, got %s" % (d, kind[:120])
    if not any(t == "E" for t, _ in exp) and len(items) != len(exp):
        return "an error-free stream must yield exactly its sections and end"
    return None


def gen_C07(rng, tier):
    groups = []
    n = 700 if tier == "quick" else 36000
    for _ in range(n):
        kinds, texts = gen_line_seq(rng)
        if rng.random() < 0.5 and kinds:
            # make it end inside a section
            kinds, texts = kinds + ["H", "N"], texts + [gen_header_text(rng, corrupt=0), b"3\t0\t1"]
        case, data = sections_case(rng, kinds, texts)
        groups.append(group("sections", "c07_sections", [case], params={"nlines": len(kinds)}, nontrivial=len(kinds) > 1))
        groups.append(group("lines", "c07_lines", ["lines " + gen.src_tok(data)], params={"nlines": len(kinds)}, nontrivial=len(kinds) > 1))
        if rng.random() < 0.2 and data:
            # the same bytes delivered in pieces (multi-byte characters and CRLF cut anywhere), and once more ending inside a
            # multi-byte character: still at most one item per line
            d2 = data if rng.random() < 0.6 else data + rng.choice([b"\xce", b"\xe2\x82", b"\xf0\x9f\x98"])
            chunks = gen.composition(rng, d2, rng.choice(["bytes", "two", "rand"]))
            extra = 0 if d2 is data else 1
            groups.append(group("sections-chunked", "c07_sections", ["sections " + gen.src_tok(d2, chunks)], params={"nlines": len(kinds) + extra}))
            groups.append(group("lines-chunked", "c07_lines", ["lines " + gen.src_tok(d2, chunks)], params={"nlines": len(kinds) + extra}))
    for _ in range(n):
        c, fam = gen_step_case(rng)
        case = "step %s %s" % (xtok(gen.header_line(c).encode("latin-1")), ",".join(rec_tok(b) for b in c["blocks"]))
        groups.append(group("step-" + fam, "c07_step", [case], params={"nrec": len(c["blocks"])}))
    # very long lines: one item per line however long the line is (a reader that cuts lines at some buffer size yields more)
    for L in (4097, 8193, 65537, 70000, 140000) + ((300000,) if tier == "thorough" else ()):
        name = "n" * L
        for texts in ([b"x" + name.encode()],
                      [b"chain 1 a 9 + 0 9 b 9 + 0 9 1", b"9", b"", name.encode(), b"", b"chain 2 a 9 + 0 9 b 9 + 0 9 2", b"9"],
                      [("chain 1 %s 9 + 0 9 b 9 + 0 9 1" % name).encode(), b"9"]):
            data = b"\n".join(texts) + b"\n"
            groups.append(group("long-line", "c07_sections", ["sections " + gen.src_tok(data)], params={"nlines": len(texts)}))
            groups.append(group("long-line", "c07_lines", ["lines " + gen.src_tok(data)], params={"nlines": len(texts)}))
    return groups


@oracle("c07_sections")
def o_c07_sections(params, cases, outs):
    o = outs[0]
    if o == "panic":
        return "the section iterator panicked"
    items = o.split(" ")
    if items[-1] != "end":
        return "the section iterator did not end within %d calls on %d lines" % (len(items), params["nlines"])
    if len(items) - 1 > params["nlines"] + 1:
        return "%d items for %d lines" % (len(items) - 1, params["nlines"])
    return None


@oracle("c07_lines")
def o_c07_lines(params, cases, outs):
    items = outs[0].split(" ")
    if items[-1] != "end":
        return "lines() did not end"
    if len(items) - 1 > params["nlines"] + 1:
        return "%d line items for %d lines" % (len(items) - 1, params["nlines"])
    return None


@oracle("c07_step")
def o_c07_step(params, cases, outs):
    o = outs[0]
    items = o.split(" ")
    if items[-1] != "end":
        return "the step-through did not end within the cap (%d records)" % params["nrec"]
    items = items[:-1]
    if len(items) > params["nrec"] + 1:
        return "%d items for %d records" % (len(items), params["nrec"])
    errs = [i for i, it in enumerate(items) if it.startswith("E(")]
    if errs and errs[0] != len(items) - 1:
        return "the step-through yielded items after an error: %s" % o[:300]
    return None


