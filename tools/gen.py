"""Generators and the Python reading of the chain format used by the property oracles.

A chain is a dict: score, tname, tsize, tstrand, tstart, tend, qname, qsize, qstrand, qstart, qend, id,
blocks = [(size, dt, dq), ..., (size,)]   (the last one terminating).  All in file coordinates."""
import random

U64 = 2 ** 64 - 1


def hexs(b):
    return b.hex()


def xtok(b):
    if isinstance(b, str):
        b = b.encode()
    return "x" + b.hex()


# ------------------------------------------------------------------------------------------------
# rendering
# ------------------------------------------------------------------------------------------------

def header_line(c):
    return "chain %d %s %d %s %d %d %s %d %s %d %d %d" % (
        c["score"], c["tname"], c["tsize"], c["tstrand"], c["tstart"], c["tend"],
        c["qname"], c["qsize"], c["qstrand"], c["qstart"], c["qend"], c["id"])


def data_lines(c):
    out = []
    for b in c["blocks"]:
        if len(b) == 3:
            out.append("%d\t%d\t%d" % b)
        else:
            out.append("%d" % b[0])
    return out


def chain_lines(c):
    return [header_line(c)] + data_lines(c)


def file_lines(f, blanks=1):
    out = []
    for i, c in enumerate(f):
        out += chain_lines(c)
        if i + 1 < len(f) or blanks:
            out += [""] * blanks
    return out


def render_lines(lines, eol="\n", final_nl=True):
    s = eol.join(lines)
    if final_nl and lines:
        s += eol
    return s.encode("latin-1")


def render(f, eol="\n", final_nl=True, blanks=1):
    return render_lines(file_lines(f, blanks), eol, final_nl)


def src_tok(data, chunks=None):
    """source token of the case protocol: one chunk, or a schedule [bytes | 'i' | 'f']"""
    if chunks is None:
        return "c" + data.hex() if data else "-"
    toks = []
    for c in chunks:
        if c in ("i", "f", "u", "r", "w"):
            toks.append(c)
        elif len(c):
            toks.append("c" + c.hex())
    return ",".join(toks) if toks else "-"


# ------------------------------------------------------------------------------------------------
# the format's meaning (independent of the implementation and of the Coq model)
# ------------------------------------------------------------------------------------------------

def blocks_local(c):
    """[(T_k, Q_k, len_k)] in file-local coordinates"""
    t, q, out = c["tstart"], c["qstart"], []
    for b in c["blocks"]:
        out.append((t, q, b[0]))
        t += b[0] + (b[1] if len(b) == 3 else 0)
        q += b[0] + (b[2] if len(b) == 3 else 0)
    return out, t, q


def wf_chain(c):
    _, t, q = blocks_local(c)
    return (c["tstart"] <= c["tend"] <= c["tsize"] and c["qstart"] <= c["qend"] <= c["qsize"]
            and t == c["tend"] and q == c["qend"] and all(len(b) == 3 for b in c["blocks"][:-1])
            and len(c["blocks"][-1]) == 1 and c["tsize"] <= U64 and c["qsize"] <= U64)


def api_pos(strand, size, local):
    """interbase position the library uses for a file-local position"""
    return local if strand == "+" else size - local


def chain_pairs(c):
    """the pairs (API coordinates) of each block: ((tname,tstrand,a,b),(qname,qstrand,a,b))"""
    out = []
    bl, _, _ = blocks_local(c)
    for (t, q, n) in bl:
        ra, rb = api_pos(c["tstrand"], c["tsize"], t), api_pos(c["tstrand"], c["tsize"], t + n)
        qa, qb = api_pos(c["qstrand"], c["qsize"], q), api_pos(c["qstrand"], c["qsize"], q + n)
        out.append(((c["tname"], c["tstrand"], ra, rb), (c["qname"], c["qstrand"], qa, qb)))
    return out


def direct(strand, a, k):
    return a + k if strand == "+" else a - k


def expected_lift(f, iv):
    """runs the format says an interval lifts to, one per aligning block, as
    (ref_ival, qry_ival) in API coordinates; iv = (ctg, strand, a, b)"""
    ctg, strand, a, b = iv
    s, e = (a, b) if strand == "+" else (b, a)
    out = []
    for c in f:
        if c["tname"] != ctg or c["tstrand"] != strand:
            continue
        for (r, q) in chain_pairs(c):
            n = abs(r[3] - r[2])
            bs, be = (r[2], r[3]) if strand == "+" else (r[3], r[2])
            lo, hi = max(bs, s), min(be, e)
            if n == 0 or lo >= hi:
                continue
            if strand == "+":
                o1, o2 = lo - r[2], hi - r[2]
            else:
                o1, o2 = r[2] - hi, r[2] - lo
            out.append(((ctg, strand, direct(strand, r[2], o1), direct(strand, r[2], o2)),
                        (q[0], q[1], direct(q[1], q[2], o1), direct(q[1], q[2], o2))))
    return out


def bases_of_run(run, limit):
    """expand a run to (ref fwd base index, qry contig, qry strand, qry fwd base index)"""
    (rc, rs, ra, rb), (qc, qs, qa, qb) = run
    n = abs(rb - ra)
    out = []
    for i in range(min(n, limit)):
        rbase = ra + i if rs == "+" else ra - 1 - i
        qbase = qa + i if qs == "+" else qa - 1 - i
        out.append((rc, rs, rbase, qc, qs, qbase))
    return out


def parse_ival(tok):
    c, s, a, b = tok.split(":")
    return (bytes.fromhex(c[1:]).decode("latin-1"), s, int(a), int(b))


def parse_pair(tok):
    r, q = tok.split(">")
    return (parse_ival(r), parse_ival(q))


def parse_lift(tok):
    """'none' -> [], 'some[p,p]' -> [pair...], 'panic' -> None"""
    if tok == "none":
        return []
    if tok.startswith("some[") and tok.endswith("]"):
        return [parse_pair(t) for t in tok[5:-1].split(",")]
    return None


def ival_tok(iv):
    return "%s:%s:%d:%d" % (xtok(iv[0].encode("latin-1")), iv[1], iv[2], iv[3])


# ------------------------------------------------------------------------------------------------
# G-chain: structured well-formed files
# ------------------------------------------------------------------------------------------------

def u8(s):
    """a str whose latin-1 encoding is the UTF-8 encoding of s (all texts here are rendered with latin-1)"""
    return s.encode("utf-8").decode("latin-1")


NAMES = ["a", "b", "chr1", "seq0", "X", u8("chr\u03a9"), u8("\u00e9\u20ac"),
         # names with the characters other notations use as separators (a contig name is any run of non-blank characters)
         "HLA-A*01:01:01", "chr6:alt|x", "c-+:",
         # a carriage return inside a name is part of the name (only a CR directly before the LF belongs to the terminator)
         "a\rb"]


def gen_blocks(rng, shape):
    if shape == "one":
        nb = 1
    elif shape == "few":
        nb = rng.randint(2, 5)
    elif shape == "many":
        nb = rng.randint(6, 40)
    else:  # longshort: one very long block among many short
        nb = rng.randint(6, 25)
    blocks = []
    long_at = rng.randrange(nb) if shape == "longshort" else -1
    for k in range(nb):
        size = rng.randint(1, 20) if rng.random() < 0.9 else rng.randint(1, 400)
        if k == long_at:
            size = rng.randint(300, 3000)
        if k == nb - 1:
            blocks.append((size,))
        else:
            gk = rng.random()
            if gk < 0.3:
                dt, dq = 0, rng.randint(1, 30)
            elif gk < 0.6:
                dt, dq = rng.randint(1, 30), 0
            elif gk < 0.9:
                dt, dq = rng.randint(1, 30), rng.randint(1, 30)
            else:
                dt, dq = 0, 0
            blocks.append((size, dt, dq))
    return blocks


def mk_chain(rng, tname, tsize_hint, qname, qsize_hint, tstrand, qstrand, blocks, cid, big=None, sizes=None):
    tlen = sum(b[0] + (b[1] if len(b) == 3 else 0) for b in blocks)
    qlen = sum(b[0] + (b[2] if len(b) == 3 else 0) for b in blocks)
    sizes = sizes if sizes is not None else {}
    def place(name, side, ln, hint):
        key = (side, name)
        if key in sizes:
            size = sizes[key]
            if size < ln:
                return None
            start = rng.randint(0, size - ln) if rng.random() < 0.7 else rng.choice([0, size - ln])
            return size, start
        if big:
            size = big
            start = big - ln if rng.random() < 0.5 else rng.randint(0, big - ln)
            if big > 2 ** 63 + ln and rng.random() < 0.4:
                # an extent that straddles 2^63 (signed 64-bit arithmetic goes wrong exactly there)
                start = max(0, 2 ** 63 - rng.randint(0, ln))
        else:
            lead = rng.choice([0, 0, rng.randint(0, 50)])
            tail = rng.choice([0, 0, rng.randint(0, 50)])
            size = max(hint, lead + ln + tail)
            start = lead
        sizes[key] = size
        return size, start
    pt = place(tname, "t", tlen, tsize_hint)
    pq = place(qname, "q", qlen, qsize_hint)
    if pt is None or pq is None:
        return None
    return dict(score=rng.randint(0, 10 ** 6), tname=tname, tsize=pt[0], tstrand=tstrand, tstart=pt[1], tend=pt[1] + tlen,
                qname=qname, qsize=pq[0], qstrand=qstrand, qstart=pq[1], qend=pq[1] + qlen, id=cid, blocks=blocks)


def gen_file(rng, zero_blocks=False, big=False, max_chains=6):
    """a well-formed file; sizes are consistent per (side, contig)"""
    nch = rng.choice([1, 1, 2, 2, 3, rng.randint(1, max_chains)])
    nt = rng.randint(1, 3)
    nq = rng.randint(1, 3)
    tnames = rng.sample(NAMES, nt)
    qnames = rng.sample(NAMES, nq) if rng.random() < 0.5 else [n + "q" for n in rng.sample(NAMES, nq)]
    sizes = {}
    f = []
    bigv = None
    if big:
        bigv = rng.choice([2 ** 32, 2 ** 63, U64, U64 - 1, 2 ** 64 - 2 ** 20])
    for k in range(nch):
        shape = rng.choice(["one", "few", "few", "many", "longshort"])
        blocks = gen_blocks(rng, shape)
        if zero_blocks:
            blocks = [((0,) + b[1:]) if rng.random() < 0.3 else b for b in blocks]
        if bigv and bigv > 2 ** 63 + 2 ** 20 and rng.random() < 0.25:
            # one block longer than 2^63 bases (no offset inside it fits a signed 64-bit integer)
            j = rng.randrange(len(blocks))
            blocks = list(blocks)
            blocks[j] = (2 ** 63 + rng.randint(0, 2000),) + tuple(blocks[j][1:])
        for _ in range(5):
            c = mk_chain(rng, rng.choice(tnames), rng.randint(1, 3000), rng.choice(qnames), rng.randint(1, 3000),
                         rng.choice("+-"), rng.choice("+-"), blocks, k, big=bigv, sizes=sizes)
            if c is not None:
                f.append(c)
                break
    if rng.random() < 0.15 and f:  # exact duplicate chain
        f.append(dict(f[rng.randrange(len(f))]))
    return f


def boundary_points(f, ctg, strand):
    pts = {0, 1, U64, U64 - 1}
    for c in f:
        if c["tname"] == ctg:
            pts.update([c["tsize"], max(c["tsize"] - 1, 0), c["tsize"] + 1])
            for (r, _q) in chain_pairs(c):
                for p in (r[2], r[3]):
                    pts.update([p, max(p - 1, 0), p + 1])
    return sorted(p for p in pts if 0 <= p <= U64)


def gen_intervals(rng, f, n):
    """intervals over the boundary set of the file plus random ones; both strands; unknown contig;
    zero-length; past the contig end"""
    out = []
    ctgs = sorted({c["tname"] for c in f}) or ["a"]
    for _ in range(n):
        r = rng.random()
        ctg = rng.choice(ctgs) if r < 0.93 else "nosuch"
        strand = rng.choice("+-")
        if rng.random() < 0.8:
            # prefer the strand some chain uses
            cands = [c["tstrand"] for c in f if c["tname"] == ctg]
            if cands and rng.random() < 0.8:
                strand = rng.choice(cands)
        pts = boundary_points(f, ctg, strand)
        small = [p for p in pts if p < 2 ** 62] or pts
        if rng.random() < 0.75:
            a, b = rng.choice(pts), rng.choice(pts)
        else:
            m = max(small)
            a, b = rng.randint(0, m + 3), rng.randint(0, m + 3)
        lo, hi = min(a, b), max(a, b)
        if rng.random() < 0.07:
            hi = lo
        out.append((ctg, strand, lo, hi) if strand == "+" else (ctg, strand, hi, lo))
    return out


def composition(rng, data, mode):
    """chunk schedule of a byte string"""
    n = len(data)
    if mode == "one" or n == 0:
        return [data]
    if mode == "bytes":
        return [data[i:i + 1] for i in range(n)]
    if mode == "two":
        k = rng.randint(0, n)
        return [data[:k], data[k:]]
    cuts = sorted(set(rng.randint(0, n) for _ in range(rng.randint(1, max(1, min(n, 12))))))
    out, prev = [], 0
    for c in cuts + [n]:
        out.append(data[prev:c])
        prev = c
    return [c for c in out if c]
